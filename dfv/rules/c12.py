"""C12 -- the box trust-region sub-problem solver (two structural clauses of the pure-Python path: final clipping on every
return, totality of every loop).  Decrease / norm / gradient identities are numerical and not decided."""
import ast

from ..loader import AnalysisError, ekey
from ..norm import atom_of, const_value
from .common import mentions, short, guards_of


def _is_call_to(eng, node, fid):
    return isinstance(node, ast.Call) and any(t.fid == fid for t in eng.res.calls[id(node)].targets)


def rule_final_clipping(eng, rep, rule="C12-1.final-clipping-on-every-return"):
    dwb = eng.fn("trust_region.d_within_bounds")
    n = 0
    for fid, pos in (("trust_region.trsbox", 0), ("trust_region.alt_trust_step", 0)):
        fi = eng.fn(fid)
        cfg = eng.cfg(fi)
        for r, d in cfg.g.nodes(data=True):
            st = d["ast"]
            if d["kind"] != "stmt" or not isinstance(st, ast.Return) or st.value is None:
                continue
            site = eng.where(fi, st)
            # the optional Fortran short-cut is outside the analysed source
            gs = guards_of(cfg, r)
            if any(a.op == "truth" and "fortran" in ekey(a.lhs).lower() for (_b, a) in gs):
                rep.note(rule, site, "Fortran back-end short-cut (outside the source analysed)")
                continue
            n += 1
            v = st.value.elts[pos] if isinstance(st.value, ast.Tuple) else st.value
            okc = False
            how = ""
            if _is_call_to(eng, v, dwb.fid):
                okc, how = True, "d_within_bounds(...) directly"
            elif isinstance(v, ast.Name):
                defs = cfg.defs_reaching(v, v.id)
                oks = []
                for dn in defs:
                    ds = cfg.ast_of(dn)
                    val = ds.value if isinstance(ds, ast.Assign) else None
                    if val is not None and _is_call_to(eng, val, dwb.fid):
                        oks.append(True)
                    elif val is not None and isinstance(ds.targets[0], (ast.Tuple, ast.List)) and _is_call_to(eng, val, "trust_region.alt_trust_step"):
                        oks.append(True)   # alt_trust_step's own returns are checked below
                    else:
                        oks.append(False)
                okc = bool(oks) and all(oks)
                how = "assigned from d_within_bounds / alt_trust_step on every path"
            if okc:
                rep.ok(rule, site, "returned step is %s" % how)
            else:
                rep.bad(rule, site, "%s|return-without-clipping|%s" % (fid, short(v, 30)), "the step returned here (`%s`) does not come out of d_within_bounds: it may leave the box" % short(v))
    rep.require_count(rule, "returns of trsbox / alt_trust_step (Python path)", n, 4)
    # d_within_bounds: clamp of xopt + d, pinning of fixed variables to the bounds, then - xopt
    cfg = eng.cfg(dwb)
    stmts = [s for s in dwb.node.body if not isinstance(s, ast.Expr)]
    clamp = None
    for s in stmts:
        if isinstance(s, ast.Assign) and isinstance(s.value, ast.Call) and ekey(s.value.func).endswith(("maximum", "minimum", "clip")):
            clamp = s
    site = eng.where(dwb)
    if clamp is None:
        rep.bad(rule, site, "trust_region.d_within_bounds|no-clamp", "d_within_bounds does not clamp")
        return
    var = ekey(clamp.targets[0])
    after = stmts[stmts.index(clamp) + 1:]
    okc = True
    for s in after:
        if isinstance(s, ast.Assign) and isinstance(s.targets[0], ast.Subscript) and ekey(s.targets[0].value) == var:
            # pinning: xnew[mask] = sl[mask] / su[mask]
            if not (isinstance(s.value, ast.Subscript) and ekey(s.value.value) in dwb.all_params):
                okc = False
        elif isinstance(s, ast.Assign) and isinstance(s.value, ast.BinOp) and isinstance(s.value.op, ast.Sub) and ekey(s.value.left) == var:
            continue
        elif isinstance(s, ast.Return):
            continue
        else:
            okc = False
    if okc and "xopt" in mentions(clamp.value) and {"sl", "su"} <= mentions(clamp.value):
        rep.ok(rule, site, "`%s`, then only pinning of fixed variables to the bounds and `- xopt`" % short(clamp, 60))
    else:
        rep.bad(rule, site, "trust_region.d_within_bounds|shape", "d_within_bounds is not clamp(xopt + d, sl, su) followed only by pinning and `- xopt`")


LOOP_FUNCS = ["trust_region.trsbox", "trust_region.alt_trust_step", "trust_region.ctrsbox_sfista", "trust_region.ctrsbox_pgd",
              "trust_region.ctrsbox_linear", "trust_region.trsbox_linear", "trust_region.ctrsbox_geometry", "trust_region.trsbox_geometry",
              "trust_region.d_within_bounds", "trust_region.ball_step"]


def rule_totality(eng, rep, rule="C12-2.totality-every-loop-is-bounded", funcs=LOOP_FUNCS):
    n = 0
    for fid in funcs:
        fi = eng.fn(fid)
        cfg = eng.cfg(fi)
        for (h, kind, st) in cfg.loops:
            n += 1
            site = eng.where(fi, st)
            if kind == "while":
                rep.bad(rule, site, "%s|while-loop|%s" % (fid, short(st.test, 30)), "`while %s` in a sub-problem routine: no static iteration bound" % short(st.test))
                continue
            it = st.iter
            if not (isinstance(it, ast.Call) and ekey(it.func) == "range"):
                rep.bad(rule, site, "%s|for-not-over-range|%s" % (fid, short(it, 30)), "loop iterates over `%s`, not over a range" % short(it))
                continue
            # the bound is not written inside the loop and the loop variable is not re-assigned
            names = set(s.id for a in it.args for s in ast.walk(a) if isinstance(s, ast.Name))
            body_nodes = cfg.loop_nodes(h) - {h}
            written = set()
            for bn in body_nodes:
                strong, weak = cfg.defs_of(bn)
                written |= strong
            tv = set(s.id for s in ast.walk(st.target) if isinstance(s, ast.Name))
            if tv & written:
                rep.bad(rule, site, "%s|loop-variable-reassigned|%s" % (fid, sorted(tv & written)[0]), "the loop variable is re-assigned inside the loop")
            else:
                rep.ok(rule, site, "`for %s in %s`: trip count fixed before the loop" % (ekey(st.target), short(it, 40)), nontrivial=bool(names))
    rep.require_count(rule, "loops in the sub-problem routines", n, 10)
    # no recursion among them
    import networkx as nx
    reach = set()
    for f in funcs:
        reach |= eng.res.reachable_from(f)
    g = eng.res.callgraph.subgraph([f for f in eng.res.callgraph.nodes if f in reach])
    cyc = [c for c in nx.simple_cycles(g)]
    if cyc:
        rep.bad(rule, "call graph", "recursion|%s" % "->".join(cyc[0]), "recursive calls among the sub-problem routines: %s" % cyc[0])
    else:
        rep.ok(rule, "call graph", "no recursion among the %d functions reachable from the sub-problem routines" % len(reach))


def _mask_of(sub):
    """`v[M == 0]` / `v[M != 0]` -> (v, M, 'eq'|'ne', const) for a boolean-mask subscript on a plain local, else None"""
    if isinstance(sub, ast.Subscript) and isinstance(sub.value, ast.Name) and isinstance(sub.slice, ast.Compare) and len(sub.slice.ops) == 1 \
            and isinstance(sub.slice.ops[0], (ast.Eq, ast.NotEq)) and isinstance(sub.slice.left, ast.Name):
        c = const_value(sub.slice.comparators[0])
        if c is not None:
            return sub.value.id, sub.slice.left.id, "eq" if isinstance(sub.slice.ops[0], ast.Eq) else "ne", c
    return None


def rule_no_stale_entries_under_a_changed_mask(eng, rep, rule="C12-4.work-vectors-are-rebuilt-when-the-active-set-changes", funcs=("trust_region.trsbox", "trust_region.alt_trust_step")):
    """A work vector that embeds the free components of another vector (`s = zeros; s[xbdi == 0] = ...`, never read on its own right-hand side) is only meaningful with
    zeros off the mask.  Between a change of the mask (a variable gets fixed: `xbdi[i] = ...`) and the next use of the whole vector (H.dot(s)) its off-mask entries must
    be defined again -- a fresh allocation, a full overwrite, or a store under the complementary mask -- or a component fixed in the meantime keeps the entry written
    while it was still free, and H.s, hence gnew = g + H d, is wrong."""
    ninst = 0
    for fid in funcs:
        fi = eng.fn(fid)
        cfg = eng.cfg(fi)
        stores = {}      # v -> [(node, M, op, const, stmt)]
        for n, d in cfg.g.nodes(data=True):
            st = d["ast"]
            if d["kind"] == "stmt" and isinstance(st, ast.Assign) and len(st.targets) == 1:
                mk = _mask_of(st.targets[0])
                if mk:
                    stores.setdefault(mk[0], []).append((n, mk[1], mk[2], mk[3], st))
        for v, lst in sorted(stores.items()):
            # on-mask stores: those whose mask selects the free components; the mask is the one used by the stores that never read v
            from .common import expand_locals
            if v in fi.all_params:
                continue        # the caller's vector: its entries off the mask are data, not padding
            embedding = [x for x in lst if v not in [m.id for m in ast.walk(expand_locals(cfg, x[4], x[4].value)) if isinstance(m, ast.Name)]]
            selfref = [x for x in lst if x not in embedding]
            if not embedding:
                continue
            # stores under the complementary mask with a constant right-hand side re-define the off-mask part
            keyset = set((M, op, c) for (_n, M, op, c, _s) in embedding if not isinstance(_s.value, ast.Constant))
            if len(keyset) != 1:
                if keyset:
                    rep.unknown(rule, eng.where(fi), "`%s` is stored under several different masks %s" % (v, sorted(keyset)))
                continue
            (M, op, c) = keyset.pop()
            onmask = [x for x in embedding if (x[1], x[2], x[3]) == (M, op, c) and not isinstance(x[4].value, ast.Constant)]
            if selfref and not all((x[1], x[2], x[3]) == (M, op, c) for x in selfref):
                continue
            if selfref:
                continue        # a vector updated from itself under the mask keeps its off-mask entries on purpose (the step d itself)
            offdefs = set()
            for n, d in cfg.g.nodes(data=True):
                st = d["ast"]
                if d["kind"] != "stmt":
                    continue
                if isinstance(st, ast.Assign):
                    for t in st.targets:
                        if isinstance(t, ast.Name) and t.id == v:
                            offdefs.add(n)
                        elif isinstance(t, (ast.Tuple, ast.List)) and v in [e.id for e in t.elts if isinstance(e, ast.Name)]:
                            offdefs.add(n)
                        elif isinstance(t, ast.Subscript) and isinstance(t.value, ast.Name) and t.value.id == v:
                            if isinstance(t.slice, ast.Slice) and t.slice.lower is None and t.slice.upper is None:
                                offdefs.add(n)          # v[:] = ...
                            mk = _mask_of(t)
                            if mk and mk[1] == M and mk[3] == c and mk[2] != op:
                                offdefs.add(n)          # the complementary mask
                elif isinstance(st, ast.Expr) and isinstance(st.value, ast.Call) and isinstance(st.value.func, ast.Attribute) and st.value.func.attr == "fill" \
                        and isinstance(st.value.func.value, ast.Name) and st.value.func.value.id == v:
                    offdefs.add(n)
                elif isinstance(st, ast.AugAssign) and isinstance(st.target, ast.Name) and st.target.id == v and isinstance(st.op, ast.Mult) and const_value(st.value) == 0:
                    offdefs.add(n)
            maskmods = []
            for n, d in cfg.g.nodes(data=True):
                st = d["ast"]
                if d["kind"] == "stmt" and isinstance(st, (ast.Assign, ast.AugAssign)):
                    for t in (st.targets if isinstance(st, ast.Assign) else [st.target]):
                        root = t
                        while isinstance(root, ast.Subscript):
                            root = root.value
                        if isinstance(root, ast.Name) and root.id == M and n not in offdefs:
                            maskmods.append(n)
            wholeuses = []
            for n, d in cfg.g.nodes(data=True):
                node = d["ast"]
                if node is None or d["kind"] not in ("stmt", "cond", "foriter"):
                    continue
                parents = {}
                for par in ast.walk(node):
                    for ch in ast.iter_child_nodes(par):
                        parents[id(ch)] = par
                for sub in ast.walk(node):
                    if isinstance(sub, ast.Name) and sub.id == v and isinstance(sub.ctx, ast.Load):
                        par = parents.get(id(sub))
                        if isinstance(par, ast.Subscript) and par.value is sub:
                            continue
                        wholeuses.append(n)
            ninst += 1
            hit = None
            for m in maskmods:
                for (ms, _M, _op, _c, mst) in onmask:
                    p1 = cfg.path_avoiding_flag_aware(m, ms, offdefs) if m != ms else [m]
                    if p1 is None:
                        continue
                    for u in wholeuses:
                        p2 = cfg.path_avoiding_flag_aware(ms, u, offdefs) if u != ms else None
                        if p2 is not None:
                            hit = (m, ms, u, p1 + p2[1:])
                            break
                    if hit:
                        break
                if hit:
                    break
            site = eng.where(fi, onmask[0][4])
            if hit:
                m, ms, u, path = hit
                rep.bad(rule, eng.where(fi, cfg.ast_of(ms)), "%s|stale-entries|%s" % (fid, v),
                        "`%s` is written only where `%s %s %s` and then used as a whole (`%s`), but on a path from `%s` the entries outside that mask are never defined again: "
                        "a component fixed in the meantime keeps the value written while it was free" % (v, M, "==" if op == "eq" else "!=", c, short(cfg.ast_of(u), 40), short(cfg.ast_of(m), 30)),
                        path=cfg.describe_path(path))
            else:
                rep.ok(rule, site, "`%s`: between every change of `%s` and the next whole use the entries off the mask are defined again (%d mask changes, %d masked stores, %d whole uses)"
                       % (v, M, len(maskmods), len(onmask), len(wholeuses)), nontrivial=bool(maskmods and wholeuses))
    rep.require_count(rule, "work vectors embedded under an active-set mask", ninst, 1)


def _is_const(e):
    return isinstance(e, ast.Constant) or const_value(e) is not None


def rule_scan_accumulators_are_reset(eng, rep, rule="C12-6.index-found-by-a-scan-is-reset-before-every-scan", funcs=LOOP_FUNCS):
    """`iact = None; for i in range(n): ... iact = i` finds the variable that limits this step.  The index is only meaningful for the scan that has just run: if a scan can be
    entered again (through an enclosing loop) on a path that passes no re-initialisation, a later pass that finds nothing still sees the index of an earlier pass and
    fixes a variable at a bound it never reached.  For every local that receives the loop variable of a scanning `for` inside that loop: on every path that leaves the
    scan and comes back to its head, a constant is assigned to the local first."""
    ninst = 0
    for fid in funcs:
        fi = eng.fn(fid)
        cfg = eng.cfg(fi)
        for (h, kind, st) in cfg.loops:
            if kind != "for":
                continue
            tv = set(x.id for x in ast.walk(st.target) if isinstance(x, ast.Name))
            inside = cfg.loop_nodes(h)
            accs = {}
            for n in inside:
                a = cfg.ast_of(n)
                if cfg.kind(n) == "stmt" and isinstance(a, ast.Assign) and len(a.targets) == 1 and isinstance(a.targets[0], ast.Name) \
                        and isinstance(a.value, ast.Name) and a.value.id in tv and a.targets[0].id not in tv:
                    accs.setdefault(a.targets[0].id, []).append(n)
            for var, stores in sorted(accs.items()):
                inits = set()
                for n, d in cfg.g.nodes(data=True):
                    a = d["ast"]
                    if d["kind"] != "stmt" or not isinstance(a, ast.Assign):
                        continue
                    for t in a.targets:
                        if isinstance(t, ast.Name) and t.id == var and _is_const(a.value):
                            inits.add(n)
                        elif isinstance(t, (ast.Tuple, ast.List)) and isinstance(a.value, (ast.Tuple, ast.List)) and len(t.elts) == len(a.value.elts):
                            for te, ve in zip(t.elts, a.value.elts):
                                if isinstance(te, ast.Name) and te.id == var and _is_const(ve):
                                    inits.add(n)
                ninst += 1
                site = eng.where(fi, st)
                # search over (node, has the path left the scan?) from each store, avoiding the re-initialisations, for a return to the head of the scan
                from collections import deque
                hit = None
                for s0 in stores:
                    prev = {(s0, False): None}
                    dq = deque([(s0, False)])
                    while dq and hit is None:
                        cur = dq.popleft()
                        n, left = cur
                        for m2 in cfg.g.successors(n):
                            if cfg.g[n][m2]["kind"] == "exc" or m2 in inits:
                                continue
                            nl = left or (m2 not in inside)
                            nxt = (m2, nl)
                            if nxt in prev:
                                continue
                            prev[nxt] = cur
                            if m2 == h and nl:
                                path = [m2]
                                c = cur
                                while c is not None:
                                    path.append(c[0])
                                    c = prev[c]
                                hit = (s0, path[::-1])
                                break
                            dq.append(nxt)
                    if hit:
                        break
                if hit:
                    rep.bad(rule, eng.where(fi, cfg.ast_of(hit[0])), "%s|stale-scan-index|%s" % (fid, var),
                            "`%s` keeps the index found by an earlier pass of the scan `for %s in %s`: the scan can be entered again without `%s` being reset, so a pass that finds "
                            "nothing acts on the variable found before" % (var, ekey(st.target), short(st.iter, 30), var), path=cfg.describe_path(hit[1]))
                elif not inits:
                    rep.ok(rule, site, "`%s` (index found by this scan): the scan is entered once" % var, nontrivial=False)
                else:
                    rep.ok(rule, site, "`%s` (index found by the scan `for %s in %s`) is reset on every path that leads back into the scan" % (var, ekey(st.target), short(st.iter, 30)))
    rep.require_count(rule, "indices found by a scanning loop", ninst, 3)


def _pretty(r, n=300):
    """the residual with the version suffixes of the symbols replaced by small indices (t#731, t#802 -> t1, t2; a base name used once keeps its name)"""
    import re
    txt = str(r)
    seen = {}
    for m in re.finditer(r"([A-Za-z_]\w*)#(\d+)", txt):
        seen.setdefault(m.group(1), [])
        if m.group(2) not in seen[m.group(1)]:
            seen[m.group(1)].append(m.group(2))

    def sub(m):
        lst = seen[m.group(1)]
        return m.group(1) if len(lst) == 1 else "%s%d" % (m.group(1), lst.index(m.group(2)) + 1)
    return re.sub(r"([A-Za-z_]\w*)#(\d+)", sub, txt)[:n]


def rule_gradient_relation(eng, rep, rule="C12-5.gnew-equals-g-plus-H-d"):
    """'gnew = g + H d' is an algebraic consequence of the statements of trsbox / alt_trust_step, not a numerical accident: every update of d is paired with the
    update of gnew by H times the same increment (and hred stays H times the reduced d).  dfv/linrel.py interprets the two routines over linear forms in the
    operators H and E_k (restriction to the free components) and proves the relation inductively at every loop head and every return; the final clipping by
    d_within_bounds is the subject of C12-1 and is treated as the identity here."""
    from .. import linrel
    inner = linrel.Spec(H="H", d="d", gnew="gnew", mask="xbdi", clip={"d_within_bounds"})
    spec = linrel.Spec(H="H", d="d", gnew="gnew", mask="xbdi", clip={"d_within_bounds"}, callees={"trust_region.alt_trust_step": inner})
    fi = eng.fn("trust_region.trsbox")
    eng.fn("trust_region.alt_trust_step")
    try:
        verdict, findings, stats = linrel.analyse(eng, fi.fid, spec)
    except linrel.Unsupported as ex:
        rep.unknown(rule, eng.where(fi), "linear-relation analysis: unsupported construct (%s)" % ex)
        return
    st = stats.get("inductive", {})
    rep.extra["C12-5"] = {"loops": sorted(st.get("loops", [])), "candidates_kept": sorted(st.get("kept", [])), "candidates_dropped": sorted(st.get("dropped", [])), "claim_checks": sorted(st.get("checks", []))}
    if verdict == "proved":
        if not rep.require_count(rule, "loops interpreted by the linear-relation analysis", len(st.get("loops", [])), 4):
            return
        if not rep.require_count(rule, "points where gnew - H d == g was checked", len(st.get("checks", [])), 4):
            return
        rep.ok(rule, eng.where(fi), "gnew - H.d == g holds at every loop head and at every return of trsbox and of alt_trust_step (inlined at its call): %d loops, claim checked at %s; "
               "auxiliary facts inferred and verified: %s" % (len(st.get("loops")), ", ".join(sorted(st.get("checks"))), ", ".join(sorted(st.get("kept", []))) or "none"))
    elif verdict == "violated":
        seen = set()
        for (f, node, where, r) in findings["first"]:
            key = "%s|relation-broken|%s" % (f.fid, where.split(" at line")[0])
            if key in seen:
                continue
            seen.add(key)
            rep.bad(rule, eng.where(f, node), key, "gnew - H.d is not kept equal to g: at the %s the statements leave the residual  %s  (symbols: values at the start of the pass; "
                    "E(.) = restriction to the free components; it vanishes only for special data)" % (where, _pretty(r)))
    else:
        f, node, where, r = findings["inductive"][0]
        rep.unknown(rule, eng.where(f, node), "the relation gnew - H.d == g is not inductive under the facts the analysis could infer (%s: residual %s), "
                    "yet the first pass through every loop keeps it" % (where, _pretty(r)))


def run(eng, rep):
    rep.explain("C12 (two structural clauses): every return of trsbox (Python path) and alt_trust_step delivers a step that is the result of d_within_bounds "
                "(reaching definitions on each return, T2), d_within_bounds is clamp(xopt+d) + pinning + (- xopt); every loop of the sub-problem routines is a "
                "`for` over a range whose bound is fixed before the loop, and the routines are not recursive (totality).")
    rep.explain('Also decided: the lower- and upper-bound blocks of trsbox / alt_trust_step / d_within_bounds are reflections of each other (T14, C12-3).')
    rep.explain("Also decided: work vectors written under the active-set mask are re-defined off the mask whenever the mask changed (C12-4); gnew - H.d == g is proved inductively "
                "at every loop head and return of trsbox / alt_trust_step by abstract interpretation over linear forms in H(.) and E_k(.) (C12-5, dfv/linrel.py).")
    rep.not_decided += ["||d|| <= delta(1+1e-8), model decrease, Cauchy decrease (numerical)", "rounding error in gnew = g + H d (the relation is decided over the reals, before the final clipping)",
                        "the optional Fortran back end (outside the analysed source)"]
    rep.guarded(rule_final_clipping, eng, rep)
    rep.guarded(rule_totality, eng, rep)
    rep.guarded(rule_no_stale_entries_under_a_changed_mask, eng, rep)
    rep.guarded(rule_gradient_relation, eng, rep)
    rep.guarded(rule_scan_accumulators_are_reset, eng, rep)
    from .mirrorrule import rule_mirror
    rep.guarded(rule_mirror, eng, rep, 'C12-3.lower-and-upper-bound-handling-are-reflections', ['trust_region.alt_trust_step', 'trust_region.trsbox', 'trust_region.d_within_bounds'])
