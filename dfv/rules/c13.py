"""C13 -- geometry and convex-constrained step solvers (structural clauses: the trust-region ball is the last set handed to
Dykstra; the zero step replaces a model-increasing regularised step; frames; totality)."""
import ast

from ..loader import AnalysisError, ekey
from ..norm import atom_of, const_value
from .. import frames
from .common import mentions, short, guards_of
from .c12 import rule_totality, LOOP_FUNCS
from .c01 import rule_frames


def rule_ball_last(eng, rep, rule="C13-1.trust-region-ball-is-the-last-set-handed-to-dykstra"):
    """The list handed to dykstra is analysed in the function that builds it: the step routine itself, or a helper it calls with its own
    (projections, centre, radius) -- the helper's parameters are then mapped back to the routine's through the call binding."""
    from ..resolve import bind_call
    for fid in ("trust_region.ctrsbox_sfista", "trust_region.ctrsbox_pgd", "trust_region.ctrsbox_linear"):
        fi = eng.fn(fid)
        params = fi.posparams
        centre = params[0]
        if "projections" not in params:
            rep.unknown(rule, eng.where(fi), "no `projections` parameter")
            continue
        radius = params[params.index("projections") + 1]
        site = eng.where(fi)

        def dykstra_calls(f):
            out = []
            for sub in [f] + f.children:
                for ci in eng.calls_in(sub):
                    if any(t.fid == "util.dykstra" for t in ci.targets):
                        out.append((sub, ci))
            return out

        builders = []      # (builder function, name of the projections list / centre / radius inside it, via text)
        rejected = []
        if dykstra_calls(fi):
            builders.append((fi, "projections", centre, radius, ""))
        else:
            for sub in [fi] + fi.children:
                for ci in eng.calls_in(sub):
                    for t in ci.targets:
                        if t.fid == fid or not dykstra_calls(t):
                            continue
                        b = bind_call(ci.node, t, False)
                        inv = {}
                        for pn, e in b.params.items():
                            if not isinstance(e, tuple):
                                inv.setdefault(ekey(e), pn)
                        if b.errors or not all(k in inv for k in ("projections", centre, radius)):
                            rejected.append((sub, ci, t))       # e.g. the call of the closure the helper returned
                            continue
                        builders.append((t, inv["projections"], inv[centre], inv[radius], " (built by %s, called with projections=%s, centre=%s, radius=%s)" % (t.qualname, "projections", centre, radius)))
        if not builders:
            for (sub, ci, t) in rejected:
                rep.bad(rule, eng.where(sub, ci.node), "%s|helper-binding|%s" % (fid, t.fid),
                        "the projecting helper %s is not called with this routine's (projections, %s, %s)" % (t.qualname, centre, radius))
            if not rejected:
                rep.bad(rule, site, "%s|no-dykstra" % fid, "routine never projects")
            continue
        for (B, pname, cname, rname, via) in builders:
            _check_builder(eng, rep, rule, fid, B, pname, cname, rname, via)


def _check_builder(eng, rep, rule, fid, B, pname, centre, radius, via):
    cfg = eng.cfg(B)
    dcalls = []
    for sub in [B] + B.children:
        for ci in eng.calls_in(sub):
            if any(t.fid == "util.dykstra" for t in ci.targets):
                dcalls.append((sub, ci))
    if True:
        for (sub, ci) in dcalls:
            lst = ci.node.args[0] if ci.node.args else None
            if not isinstance(lst, ast.Name):
                rep.bad(rule, eng.where(sub, ci.node), "%s|dykstra-list-not-a-local" % fid, "dykstra is called with `%s`" % short(lst))
                continue
            # all definitions / mutations of that list in the routine
            muts = []
            for n, d in cfg.g.nodes(data=True):
                st = d["ast"]
                if d["kind"] != "stmt":
                    continue
                if isinstance(st, ast.Assign) and len(st.targets) == 1 and ekey(st.targets[0]) == lst.id:
                    muts.append(("assign", n, st))
                elif isinstance(st, ast.Expr) and isinstance(st.value, ast.Call) and isinstance(st.value.func, ast.Attribute) and ekey(st.value.func.value) == lst.id:
                    muts.append((st.value.func.attr, n, st))
                elif isinstance(st, ast.AugAssign) and ekey(st.target) == lst.id:
                    muts.append(("aug", n, st))
            kinds = [m[0] for m in muts]
            ok_shape = kinds == ["assign", "append"]
            fresh = ok_shape and isinstance(muts[0][2].value, ast.Call) and ekey(muts[0][2].value.func) == "list" and ekey(muts[0][2].value.args[0]) == pname
            ball = None
            if ok_shape:
                appended = muts[1][2].value.args[0]
                lam = None
                if isinstance(appended, ast.Lambda):
                    lam = appended
                elif isinstance(appended, ast.Name):
                    defs = cfg.defs_reaching(appended, appended.id)
                    if len(defs) == 1 and isinstance(cfg.ast_of(defs[0]), ast.Assign) and isinstance(cfg.ast_of(defs[0]).value, ast.Lambda):
                        lam = cfg.ast_of(defs[0]).value
                    elif len(defs) == 1 and isinstance(cfg.ast_of(defs[0]), ast.FunctionDef):
                        fdef = cfg.ast_of(defs[0])
                        body = [x for x in fdef.body if not (isinstance(x, ast.Expr) and isinstance(x.value, ast.Constant))]
                        if len(body) == 1 and isinstance(body[0], ast.Return) and len(fdef.args.args) == 1:
                            lam = ast.Lambda(args=fdef.args, body=body[0].value)       # `def trproj(w): return pball(w, c, r)` is the same thing
                if lam is not None and isinstance(lam.body, ast.Call) and any(t.fid == "util.pball" for t in eng.res.calls[id(lam.body)].targets):
                    ball = lam.body
            s2 = eng.where(sub, ci.node)
            if not ok_shape or not fresh:
                rep.bad(rule, s2, "%s|projector-list-shape|%s" % (fid, "+".join(kinds)),
                        "the list handed to dykstra must be built as `%s = list(%s)` followed by exactly one append of the trust-region ball (found: %s)%s" % (lst.id, pname, kinds, via))
                continue
            if ball is None or len(ball.args) != 3:
                rep.bad(rule, s2, "%s|last-projector-not-a-ball" % fid, "the projector appended last is not `lambda w: pball(w, centre, radius)`%s" % via)
                continue
            c_ok = ekey(ball.args[1]) == centre
            r_ok = ekey(ball.args[2]) == radius
            if c_ok and r_ok:
                rep.ok(rule, s2, "[%s] dykstra runs over list(%s) + [pball(., %s, %s)]: the ball of the routine's own centre and radius is projected last; the caller's list is not mutated%s" % (fid.split(".")[-1], pname, centre, radius, via))
            else:
                rep.bad(rule, s2, "%s|ball-centre-or-radius|%s,%s" % (fid, ekey(ball.args[1]), ekey(ball.args[2])),
                        "the trust-region ball is pball(., %s, %s) but the routine's centre/radius are (%s, %s)%s" % (ekey(ball.args[1]), ekey(ball.args[2]), centre, radius, via))
            # the projected point is centre + step
            pt = ci.node.args[1] if len(ci.node.args) > 1 else None
            if pt is not None and isinstance(pt, ast.BinOp) and isinstance(pt.op, ast.Add) and centre in (ekey(pt.left), ekey(pt.right)):
                rep.ok(rule, s2, "[%s] the projected point is `%s` and the routine returns the step relative to %s" % (fid.split(".")[-1], short(pt), centre), nontrivial=False)
            else:
                rep.bad(rule, s2, "%s|projected-point|%s" % (fid, short(pt, 30)), "the point handed to dykstra is `%s`, not centre + step%s" % (short(pt), via))


def rule_geometry_point_from_box_solver(eng, rep, rule="C13-6.geometry-point-is-centre-plus-an-output-of-the-box-solver"):
    """trsbox_geometry must return centre + s with s an output of trsbox_linear(+/-g, lower - centre, upper - centre, Delta): only that routine keeps s inside
    the (asymmetric) box and the ball; anything derived otherwise (a mirrored or rescaled step) is not known to be feasible."""
    fi = eng.fn("trust_region.trsbox_geometry")
    cfg = eng.cfg(fi)
    centre, lower, upper, radius = fi.posparams[0], fi.posparams[3], fi.posparams[4], fi.posparams[5]
    nret = 0
    for n, d in cfg.g.nodes(data=True):
        st = d["ast"]
        if d["kind"] != "stmt" or not isinstance(st, ast.Return) or st.value is None:
            continue
        nret += 1
        v = st.value
        site = eng.where(fi, st)
        step = None
        if isinstance(v, ast.BinOp) and isinstance(v.op, ast.Add):
            for a, b_ in ((v.left, v.right), (v.right, v.left)):
                if ekey(a) == centre and isinstance(b_, ast.Name):
                    step = b_
        if step is None:
            rep.bad(rule, site, "trust_region.trsbox_geometry|return-shape|%s" % short(v, 25), "returns `%s`, not %s + <step>" % (short(v), centre))
            continue
        bad = None
        for dn in cfg.defs_reaching(step, step.id):
            ds = cfg.ast_of(dn)
            okd = False
            if isinstance(ds, ast.Assign) and isinstance(ds.value, ast.Call) and any(t.fid == "trust_region.trsbox_linear" for t in eng.res.calls[id(ds.value)].targets):
                from .common import expand_locals
                a = [expand_locals(cfg, ds, x) for x in ds.value.args]        # (`s_lower = lower - xbase` computed once and passed twice is the same thing)
                okd = len(a) >= 4 and ekey(a[1]).replace(" ", "") == "%s-%s" % (lower, centre) and ekey(a[2]).replace(" ", "") == "%s-%s" % (upper, centre) and ekey(a[3]) == radius
            if not okd:
                bad = ds
        if bad is None:
            rep.ok(rule, site, "`%s` is assigned only from trsbox_linear(., %s - %s, %s - %s, %s)" % (step.id, lower, centre, upper, centre, radius))
        else:
            rep.bad(rule, eng.where(fi, bad), "trust_region.trsbox_geometry|step-not-from-box-solver|%s" % step.id,
                    "the returned step `%s` can come from `%s`, which is not an output of trsbox_linear over the box relative to the centre: it need not lie in the box" % (step.id, short(bad, 50)))
    rep.require_count(rule, "returns of trsbox_geometry", nret, 2)


def rule_zero_step(eng, rep, rule="C13-2.zero-step-replaces-a-model-increasing-regularised-step"):
    fi = eng.fn("controller.Controller.trust_region_step")
    cfg = eng.cfg(fi)
    rets = [n for n, d in cfg.g.nodes(data=True) if d["kind"] == "stmt" and isinstance(d["ast"], ast.Return)]
    if len(rets) != 1 or not isinstance(cfg.ast_of(rets[0]).value, ast.Tuple):
        rep.unknown(rule, eng.where(fi), "expected a single tuple return")
        return
    r = rets[0]
    ret = cfg.ast_of(r).value
    dname = ekey(ret.elts[0])
    g_ret, H_ret = ekey(ret.elts[1]), ekey(ret.elts[2])
    # the guard  pred_reduction < 0  with  d = zeros on its true edge
    guard = None
    for n in cfg.nodes_of_kind("cond"):
        at = atom_of(cfg.ast_of(n), True)
        if at.op == "lt" and isinstance(at.lhs, ast.Name) and const_value(at.rhs) == 0:
            tgt = [m for m, e in cfg.succ(n) if e["label"] is True]
            for m in tgt:
                st = cfg.ast_of(m)
                if isinstance(st, ast.Assign) and ekey(st.targets[0]) == dname and isinstance(st.value, ast.Call) and ekey(st.value.func).endswith("zeros"):
                    guard = (n, at.lhs.id, m)
    site = eng.where(fi)
    if guard is None:
        rep.bad(rule, site, "controller.Controller.trust_region_step|no-zero-step-guard", "no `if pred_reduction < 0: d = zeros` before the return")
        return
    gnode, pvar, znode = guard
    # every path with h set from a solver call assigning d to the return passes the guard
    hnone = [n for n in cfg.nodes_of_kind("cond") if ekey(cfg.ast_of(n)).replace(" ", "") in ("self.hisNone", "self.hisnotNone")]
    ddefs = [n for n, d in cfg.g.nodes(data=True) if d["kind"] == "stmt" and isinstance(d["ast"], ast.Assign) and dname in [x for t in d["ast"].targets for x in _names(t)] and n != znode]
    bad = None
    for dn in ddefs:
        gs = guards_of(cfg, dn)
        h_is_none = any(a.op == "is" and ekey(a.lhs).endswith(".h") for (_b, a) in gs)
        if h_is_none:
            continue
        p = cfg.path_avoiding(dn, r, [gnode])
        if p is not None:
            bad = (dn, p)
    if bad:
        rep.bad(rule, eng.where(fi, cfg.ast_of(bad[0])), "controller.Controller.trust_region_step|regularised-step-skips-guard",
                "a regularised step can reach the return without the predicted-reduction test", path=cfg.describe_path(bad[1])[-10:])
    else:
        rep.ok(rule, site, "every regularised step passes `%s < 0 => %s = zeros` before the return" % (pvar, dname))
    # pred_reduction is computed from the d that is returned and from the same (gopt, H)
    pdefs = cfg.defs_reaching(cfg.ast_of(gnode), pvar)
    okp = True
    for pdn in pdefs:
        st = cfg.ast_of(pdn)
        mv = [c for c in ast.walk(st.value) if isinstance(c, ast.Call) and any(t.fid == "util.model_value" for t in eng.res.calls[id(c)].targets)]
        if len(mv) != 1:
            okp = False
            continue
        a = mv[0].args
        if not (len(a) >= 3 and ekey(a[0]) == g_ret and ekey(a[1]) == H_ret and ekey(a[2]) == dname):
            okp = False
        # no re-definition of d between this computation and the guard
        for dn in ddefs:
            if cfg.path_avoiding(pdn, dn, [gnode]) is not None and cfg.path_avoiding(dn, gnode, []) is not None:
                okp = False
        from .c03 import _is_hcall
        hterm = [c for c in ast.walk(st.value) if isinstance(c, ast.Call) and id(c) in eng.res.calls and _is_hcall(eng, c)]      # (a call of h or of a wrapper whose every return is one)
        if not (isinstance(st.value, ast.BinOp) and isinstance(st.value.op, ast.Sub) and hterm):
            okp = False
    if okp and pdefs:
        rep.ok(rule, eng.where(fi, cfg.ast_of(pdefs[0])), "%s = h(x) - model_value(%s, %s, %s, ...) uses the step and the model that are returned" % (pvar, g_ret, H_ret, dname))
    else:
        rep.bad(rule, site, "controller.Controller.trust_region_step|pred-reduction-inputs", "the predicted reduction is not computed as h(x) - model_value(gopt, H, d, ...) of the returned step and model")


def _names(t):
    if isinstance(t, ast.Name):
        return [t.id]
    if isinstance(t, (ast.Tuple, ast.List)):
        out = []
        for e in t.elts:
            out += _names(e)
        return out
    return []


def rule_geometry_frames(eng, rep, rule="C13-3"):
    """Frame agreement at the arithmetic / clamp / dykstra sites of the step routines and their callers."""
    want = ("trust_region.", "controller.Controller.geometry_step", "controller.Controller.trust_region_step", "controller.Controller.evaluate_criticality_measure", "util.model_value")
    n = 0
    seen = set()
    for cfg in frames.CONFIGS:
        it = frames.analyse(eng, cfg)
        for (kind, nid), (fi, node) in it.sites.items():
            if not fi.fid.startswith(want) or kind not in ("arith", "clamp", "dykstra-frames", "callback-frame"):
                continue
            if kind == "callback-frame" and fi.fid != "util.model_value":
                continue      # model_value feeds the predicted reduction of the regularised step (C13-2); other callbacks belong to C06
            if kind == "arith" and "gradient_Fu" in fi.fid:
                continue  # callbacks in user coordinates: decided under C06-5
            n += 1
            iss = it.issues.get((kind, nid))
            r = "%s.frame-agreement-%s" % (rule, kind)
            if iss is None:
                if (kind, nid) not in seen:
                    seen.add((kind, nid))
                    rep.ok(r, eng.where(fi, node), "operands agree in every configuration analysed: `%s`" % short(node, 50), nontrivial=kind != "arith")
            elif iss.key not in seen:
                seen.add(iss.key)
                rep.bad(r, eng.where(fi, node), iss.key, "[%r] %s" % (cfg, iss.msg))
    rep.require_count(rule + ".frame-agreement", "sites in the step routines", n, 40)


def _expand_except(cfg, at_ast, expr, keep, depth=3):
    """expand_locals, but names in `keep` stay as they are"""
    import copy

    class _Sub(ast.NodeTransformer):
        def visit_Name(self, node):
            if not isinstance(node.ctx, ast.Load) or node.id in keep or depth <= 0:
                return node
            try:
                defs = cfg.defs_reaching(at_ast, node.id)
            except Exception:
                return node
            if len(defs) != 1:
                return node
            st = cfg.ast_of(list(defs)[0])
            if isinstance(st, ast.Assign) and len(st.targets) == 1 and isinstance(st.targets[0], ast.Name) and st.targets[0].id == node.id:
                return _expand_except(cfg, st, st.value, keep, depth - 1)
            return node
    return _Sub().visit(copy.deepcopy(expr))


def rule_geometry_step_is_the_better_candidate(eng, rep, rule="C13-7.geometry-step-is-the-better-of-minimiser-and-maximiser"):
    """max |c + g's| over a convex region is attained at the minimiser or at the maximiser of g's -- which one depends on c and on the (asymmetric) region, so both
    must be computed and compared: every return of trsbox_geometry / ctrsbox_geometry hands back the candidate on the larger side of a comparison of
    |c + g.s_min| with |c + g.s_max|, where one candidate was computed for +g and the other for -g."""
    from .common import expand_locals
    solvers = {"trust_region.trsbox_linear", "trust_region.ctrsbox_linear"}
    nret = 0
    for fid in ("trust_region.trsbox_geometry", "trust_region.ctrsbox_geometry"):
        fi = eng.fn(fid)
        cfg = eng.cfg(fi)
        cpar, gpar = fi.posparams[1], fi.posparams[2]
        sign = {}       # candidate name -> {(+1 | -1, base direction)} over all its definitions
        calltext = {}   # candidate name -> texts of the solver calls that define it
        gdirs = set()   # locals every definition of which is +g or -g (possibly chosen by the data)

        def pm_g(e):
            if isinstance(e, ast.IfExp):
                return pm_g(e.body) and pm_g(e.orelse)
            if isinstance(e, ast.UnaryOp) and isinstance(e.op, ast.USub):
                e = e.operand
            return isinstance(e, ast.Name) and e.id == gpar
        defs_by_name = {}
        for n, d in cfg.g.nodes(data=True):
            st = d["ast"]
            if d["kind"] == "stmt" and isinstance(st, ast.Assign) and len(st.targets) == 1 and isinstance(st.targets[0], ast.Name):
                defs_by_name.setdefault(st.targets[0].id, []).append(st.value)
        for nm, vals in defs_by_name.items():
            if nm != gpar and all(pm_g(v) for v in vals) and any(isinstance(v, ast.IfExp) for v in vals):
                gdirs.add(nm)
        for n, d in cfg.g.nodes(data=True):
            st = d["ast"]
            if d["kind"] == "stmt" and isinstance(st, ast.Assign) and len(st.targets) == 1 and isinstance(st.targets[0], ast.Name) and isinstance(st.value, ast.Call):
                ci = eng.res.calls.get(id(st.value))
                if ci and any(t.fid in solvers for t in ci.targets):
                    sg = None
                    for a in list(st.value.args) + [k.value for k in st.value.keywords]:
                        # the linear term the candidate was computed for: +g / -g, or +/- a local direction (`gs = g if c <= 0 else -g`): (sign, base)
                        for a2 in (a, expand_locals(cfg, st, a)):
                            if isinstance(a2, ast.Name) and (a2.id == gpar or a2.id in gdirs):
                                sg = (+1, a2.id)
                            elif isinstance(a2, ast.UnaryOp) and isinstance(a2.op, ast.USub) and isinstance(a2.operand, ast.Name) and (a2.operand.id == gpar or a2.operand.id in gdirs):
                                sg = (-1, a2.operand.id)
                            if sg is not None:
                                break
                        if sg is not None:
                            break
                    sign.setdefault(st.targets[0].id, set()).add(sg)
                    calltext.setdefault(st.targets[0].id, set()).add(ekey(st.value))

        def candidate_of(e, at):
            """name of the candidate S if e == |c + g.S| (temporaries looked through), else None"""
            e = _expand_except(cfg, at, e, set(sign) | {cpar, gpar})
            if not (isinstance(e, ast.Call) and ekey(e.func).split(".")[-1] in ("abs", "fabs", "absolute") and len(e.args) == 1):
                return None
            b = e.args[0]
            if not (isinstance(b, ast.BinOp) and isinstance(b.op, ast.Add)):
                return None
            for x, y in ((b.left, b.right), (b.right, b.left)):
                if isinstance(x, ast.Name) and x.id == cpar and isinstance(y, ast.Call) and ekey(y.func).split(".")[-1] == "dot" and len(y.args) == 2:
                    for u, v in ((y.args[0], y.args[1]), (y.args[1], y.args[0])):
                        if isinstance(u, ast.Name) and u.id == gpar and isinstance(v, ast.Name):
                            return v.id
            return None

        for n, d in cfg.g.nodes(data=True):
            st = d["ast"]
            if d["kind"] != "stmt" or not isinstance(st, ast.Return) or st.value is None:
                continue
            outer = [(cfg.ast_of(gn), a) for (gn, a) in guards_of(cfg, n)]
            if isinstance(st.value, ast.IfExp):
                # `return a if test else b`: two returns, each under its side of the test
                cases = [(st.value.body, outer + [(st, atom_of(st.value.test, True))]), (st.value.orelse, outer + [(st, atom_of(st.value.test, False))])]
            else:
                cases = [(st.value, outer)]
            for (v, guards) in cases:
                nret += 1
                site = eng.where(fi, st)
                names = [x.id for x in ast.walk(v) if isinstance(x, ast.Name) and x.id in sign]
                if len(names) != 1:
                    rep.unknown(rule, site, "`%s`: cannot tell which candidate is returned" % short(st, 50))
                    continue
                S = names[0]
                if None in sign[S] or len(sign[S]) != 1:
                    rep.unknown(rule, site, "candidate `%s` is not computed for exactly one of +%s / -%s" % (S, gpar, gpar))
                    continue
                verdict = None
                for (at, a) in guards:
                    if a.op not in ("le", "lt") or a.rhs is None:
                        continue
                    small, large = candidate_of(a.lhs, at), candidate_of(a.rhs, at)
                    if small is None or large is None or small == large or small not in sign or large not in sign:
                        continue
                    if None in sign[small] or None in sign[large]:
                        continue
                    (sa, ba), (sb, bb) = list(sign[small])[0], list(sign[large])[0]
                    if ba != bb:
                        continue        # not comparable: different base directions
                    if sa == sb:
                        if len(calltext.get(small, set()) | calltext.get(large, set())) == 1:
                            rep.bad(rule, site, "%s|candidates-same-direction" % fid, "`%s` and `%s` are both computed by the same call `%s`: the other extreme of g's is never examined"
                                    % (small, large, sorted(calltext[small])[0][:60]))
                            verdict = False
                        else:
                            rep.unknown(rule, site, "`%s` and `%s` are computed for the same sign of %s by calls that differ in another argument, which this rule cannot interpret" % (small, large, gpar))
                            verdict = "unknown"
                        break
                    if S == large:
                        verdict = True
                    elif S == small:
                        verdict = False
                        rep.bad(rule, site, "%s|returns-the-smaller-candidate|%s" % (fid, S), "`%s` is returned where |%s + %s.%s| %s |%s + %s.%s|: the candidate with the smaller |L| is chosen"
                                % (S, cpar, gpar, small, "<=" if a.op == "le" else "<", cpar, gpar, large))
                    break
                if verdict is None:
                    rep.bad(rule, site, "%s|returned-without-comparison|%s" % (fid, S),
                            "`%s` is handed back without being compared with the candidate for the opposite sign of %s: max |%s + %s.s| can be attained at either extreme (the region is not symmetric about the centre)"
                            % (short(st, 40), gpar, cpar, gpar))
                elif verdict is True:
                    rep.ok(rule, site, "`%s` (computed for %s%s) is returned on the larger side of the comparison of |%s + %s.s| at the two candidates" % (S, "+" if list(sign[S])[0][0] == 1 else "-", list(sign[S])[0][1], cpar, gpar))
    rep.require_count(rule, "returns of the geometry-step routines", nret, 4)


def rule_step_routines_do_not_modify_their_arguments(eng, rep, rule="C13-8.step-routines-do-not-modify-their-array-arguments"):
    """The callers keep using what they pass in: trsbox_geometry evaluates |c + g.s| with the g it handed to the linear solver twice, the controller re-uses gopt, H, the
    bounds and the base point after the step.  A routine that works on its parameter itself (`dirn = g` instead of `dirn = -g`, an in-place clamp of the bounds) changes
    those values behind the caller's back.  For every step routine: no element store, augmented assignment, fill/sort or out= on a parameter or on a local that is a view
    of one (plain binding, slice, .T, reshape, asarray, conditional expression of such)."""
    funcs = ["trust_region.trsbox", "trust_region.trsbox_linear", "trust_region.trsbox_geometry", "trust_region.ctrsbox_geometry", "trust_region.ctrsbox_linear",
             "trust_region.ctrsbox_pgd", "trust_region.ctrsbox_sfista", "trust_region.ball_step", "trust_region.d_within_bounds"]
    VIEW_METHODS = ("reshape", "ravel", "view", "transpose", "squeeze", "swapaxes")

    def roots(e):
        """names the value of e may be a view of"""
        if isinstance(e, ast.Name):
            return {e.id}
        if isinstance(e, ast.IfExp):
            return roots(e.body) | roots(e.orelse)
        if isinstance(e, ast.Subscript):
            idx = e.slice.elts if isinstance(e.slice, ast.Tuple) else [e.slice]
            if any(isinstance(i, (ast.List, ast.ListComp, ast.Compare, ast.Name)) for i in idx):
                return set()
            return roots(e.value)
        if isinstance(e, ast.Attribute) and e.attr == "T":
            return roots(e.value)
        if isinstance(e, ast.Call) and isinstance(e.func, ast.Attribute) and e.func.attr in VIEW_METHODS:
            return roots(e.func.value)
        if isinstance(e, ast.Call) and ekey(e.func) in ("np.asarray", "numpy.asarray", "np.asanyarray", "np.atleast_1d") and e.args:
            return roots(e.args[0])
        return set()

    nfun = 0
    for fid in funcs:
        fi = eng.fn(fid)
        nfun += 1
        params = set(fi.all_params)
        alias = dict((p, {p}) for p in params)          # local -> parameters it may be a view of
        for _ in range(4):
            for node in eng.prog.own_nodes(fi):
                if isinstance(node, ast.Assign) and len(node.targets) == 1 and isinstance(node.targets[0], ast.Name):
                    src = set()
                    for r in roots(node.value):
                        src |= alias.get(r, set())
                    if src:
                        alias.setdefault(node.targets[0].id, set()).update(src)
        # a name that is also re-bound to a fresh value somewhere is judged per store with reaching definitions
        cfg = eng.cfg(fi)
        hit = None
        for n, d in cfg.g.nodes(data=True):
            st = d["ast"]
            if d["kind"] != "stmt":
                continue
            tgt = []
            if isinstance(st, ast.Assign):
                tgt = [t for t in st.targets if isinstance(t, ast.Subscript)]
            elif isinstance(st, ast.AugAssign):
                tgt = [st.target]
            elif isinstance(st, ast.Expr) and isinstance(st.value, ast.Call) and isinstance(st.value.func, ast.Attribute) and st.value.func.attr in ("fill", "sort", "resize", "put", "itemset") \
                    and isinstance(st.value.func.value, ast.Name):
                tgt = [st.value.func.value]
            for sub in ast.walk(st) if isinstance(st, (ast.Assign, ast.Expr, ast.AugAssign)) else []:
                if isinstance(sub, ast.Call):
                    for kw in sub.keywords:
                        if kw.arg == "out" and isinstance(kw.value, ast.Name):
                            tgt.append(kw.value)
            for t in tgt:
                root = t
                while isinstance(root, (ast.Subscript, ast.Attribute)):
                    root = root.value
                if not isinstance(root, ast.Name) or root.id not in alias:
                    continue
                # which definitions of the local reach this store?  (a parameter name itself: the entry definition)
                views = set()
                for dn in cfg.defs_reaching(st, root.id):
                    ds = cfg.ast_of(dn)
                    if cfg.kind(dn) == "entry":
                        views |= {root.id} & params
                    elif isinstance(ds, ast.Assign) and len(ds.targets) == 1 and isinstance(ds.targets[0], ast.Name) and ds.targets[0].id == root.id:
                        for r in roots(ds.value):
                            views |= alias.get(r, set())
                    elif isinstance(ds, ast.AugAssign):
                        views |= alias.get(root.id, set())
                if views and hit is None:
                    hit = (st, root.id, sorted(views))
        site = eng.where(fi)
        if hit:
            st, loc, views = hit
            rep.bad(rule, eng.where(fi, st), "%s|modifies-its-argument|%s" % (fid, views[0]),
                    "`%s` modifies `%s` in place, which is (a view of) the parameter `%s`: the caller's array changes behind its back" % (short(st, 50), loc, views[0]))
        else:
            rep.ok(rule, site, "%s does not modify any of its array arguments in place" % fi.qualname, nontrivial=False)
    rep.require_count(rule, "step routines inspected", nfun, 8)


def run(eng, rep):
    rep.explain("C13 (structural clauses): in ctrsbox_sfista/pgd/linear the list handed to dykstra is list(projections) plus, appended last, pball(., centre, radius) "
                "of the routine's own centre and radius parameters; in Controller.trust_region_step every regularised step passes `pred_reduction < 0 => d = 0` and "
                "pred_reduction is computed from the returned (gopt, H, d); frame agreement (T5) at all arithmetic/clamp/dykstra sites of the step routines; totality.")
    rep.explain("Also decided: trsbox_linear's face handling is reflection-equivariant (T14, C13-5); the geometry point is centre + an output of trsbox_linear over the box relative to the centre (C13-6); the projector list may be built by a helper (parameters mapped back through the call binding); each geometry routine returns the candidate with the larger |c + g.s| of the minimiser and the maximiser (C13-7).")
    rep.not_decided += ["box to 1e-12, global maximum of |c + g's| to 1e-6, ||d|| <= Delta(1+1e-8) (numerical)"]
    rep.note("C13", "dfols/trust_region.py:ctrsbox_geometry", "passes literal d_max_iters=100, d_tol=1e-10 instead of its own parameters (observation, not part of the statement)")
    rep.guarded(rule_ball_last, eng, rep)
    rep.guarded(rule_zero_step, eng, rep)
    rep.guarded(rule_geometry_frames, eng, rep)
    rep.guarded(rule_totality, eng, rep, rule="C13-4.totality-every-loop-is-bounded")
    from .mirrorrule import rule_mirror
    rep.guarded(rule_mirror, eng, rep, 'C13-5.lower-and-upper-face-handling-are-reflections', ['trust_region.trsbox_linear'])
    rep.guarded(rule_geometry_point_from_box_solver, eng, rep)
    rep.guarded(rule_geometry_step_is_the_better_candidate, eng, rep)
    rep.guarded(rule_step_routines_do_not_modify_their_arguments, eng, rep)
