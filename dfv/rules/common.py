"""Helpers shared by the rule modules."""
import ast

from ..loader import AnalysisError, ekey
from ..norm import atom_of, const_value, is_none

PARAMS_CALL = "params.ParameterList.__call__"


def mentions(node):
    """Names and attribute names mentioned in an expression."""
    out = set()
    if node is None:
        return out
    for sub in ast.walk(node):
        if isinstance(sub, ast.Name):
            out.add(sub.id)
        elif isinstance(sub, ast.Attribute):
            out.add(sub.attr)
    return out


def guards_of(cfg, cfgnode, include_loops=False):
    """Atoms (cond nodes with outcome) that guard the node: the cond dominates it and only that outcome leads to it.
    A local that is nothing but a hoisted parameter read (`lim = params("key")`, one reaching definition) is replaced by that read."""
    out = []
    for (b, lab) in cfg.dominating_guards(cfgnode):
        t = cfg.ast_of(b)
        out.append((b, atom_of(rebuild(t, lambda n: _param_local(cfg, t, n)), lab)))
    return out


def rebuild(node, repl):
    """Identity-preserving rewrite: `repl(sub)` returns a replacement node or None.  Sub-trees without a replacement are returned as the very same
    objects (so tables keyed by id(node) -- resolved calls, CFG nodes -- keep working); only the spine above a replacement is copied."""
    import copy
    r = repl(node)
    if r is not None:
        return r
    changed = False
    new_fields = {}
    for field, val in ast.iter_fields(node):
        if isinstance(val, list):
            nl = [rebuild(v, repl) if isinstance(v, ast.AST) else v for v in val]
            if any(a is not b for a, b in zip(nl, val)):
                changed = True
            new_fields[field] = nl
        elif isinstance(val, ast.AST):
            nv = rebuild(val, repl)
            if nv is not val:
                changed = True
            new_fields[field] = nv
    if not changed:
        return node
    new = copy.copy(node)
    for f, v in new_fields.items():
        setattr(new, f, v)
    return new


def _param_local(cfg, at_ast, node):
    if not (isinstance(node, ast.Name) and isinstance(node.ctx, ast.Load)):
        return None
    try:
        defs = cfg.defs_reaching(at_ast, node.id)
    except Exception:
        return None
    if len(defs) != 1:
        return None
    st = cfg.ast_of(list(defs)[0])
    if isinstance(st, ast.Assign) and len(st.targets) == 1 and isinstance(st.targets[0], ast.Name) and isinstance(st.value, ast.Call) \
            and isinstance(st.value.func, ast.Name) and st.value.func.id == "params" and len(st.value.args) == 1 and not st.value.keywords \
            and isinstance(st.value.args[0], ast.Constant):
        return st.value
    return None


def calls_in_expr(node):
    return [n for n in ast.walk(node) if isinstance(n, ast.Call)]


def param_key(eng, call):
    """Literal parameter key if `call` is a ParameterList.__call__ with a literal first argument, else None."""
    ci = eng.res.calls.get(id(call))
    if ci is None or not any(t.fid == PARAMS_CALL for t in ci.targets):
        return None
    if call.args and isinstance(call.args[0], ast.Constant) and isinstance(call.args[0].value, str):
        return call.args[0].value
    for kw in call.keywords:
        if kw.arg == "key" and isinstance(kw.value, ast.Constant):
            return kw.value.value
    return None


def param_keys_in(eng, node):
    out = set()
    for c in calls_in_expr(node):
        k = param_key(eng, c)
        if k is not None:
            out.add(k)
    return out


def is_param_set(call):
    return any(kw.arg == "new_value" for kw in call.keywords) or len(call.args) >= 2


def targets_fids(eng, call):
    ci = eng.res.calls.get(id(call))
    return set(t.fid for t in ci.targets) if ci else set()


def calls_to_in(eng, fi, fid):
    """Call nodes inside function fi that resolve to fid."""
    return [c.node for c in eng.calls_in(fi) if any(t.fid == fid for t in c.targets)]


def assigned_names(target):
    out = []
    if isinstance(target, ast.Name):
        out.append(target.id)
    elif isinstance(target, (ast.Tuple, ast.List)):
        for e in target.elts:
            out += assigned_names(e)
    elif isinstance(target, ast.Starred):
        out += assigned_names(target.value)
    return out


def stmt_nodes(cfg, pred):
    """CFG stmt nodes whose AST satisfies pred."""
    return [n for n, d in cfg.g.nodes(data=True) if d["kind"] == "stmt" and pred(d["ast"])]


def arg_of(eng, call, target_fi, pname, bound=None):
    """Expression bound to parameter pname of target_fi at this call (None if default / absent)."""
    from ..resolve import bind_call
    if bound is None:
        bound = False
        for t, b in eng.res.call_targets(eng.res.calls[id(call)].caller, call):
            if t.fid == target_fi.fid:
                bound = b
    b = bind_call(call, target_fi, bound and target_fi.is_method)
    e = b.params.get(pname)
    if isinstance(e, tuple):
        return None
    return e


def short(node, n=70):
    s = ekey(node).replace("\n", " ")
    return s if len(s) <= n else s[:n - 3] + "..."


def expand_locals(cfg, at_ast, expr, depth=3):
    """Copy of `expr` in which every local name with exactly one reaching definition of the form `name = <value>` is replaced by that value
    (explaining variables / single-use temporaries are looked through).  `at_ast` is the statement in which expr is evaluated."""
    import copy

    class _Sub(ast.NodeTransformer):
        def visit_Name(self, node):
            if not isinstance(node.ctx, ast.Load) or depth <= 0:
                return node
            try:
                defs = cfg.defs_reaching(at_ast, node.id)
            except Exception:
                return node
            if len(defs) != 1:
                return node
            st = cfg.ast_of(list(defs)[0])
            if isinstance(st, ast.Assign) and len(st.targets) == 1 and isinstance(st.targets[0], ast.Name) and st.targets[0].id == node.id:
                return expand_locals(cfg, st, st.value, depth - 1)
            return node

    return _Sub().visit(copy.deepcopy(expr))


def inline_simple_calls(eng, expr, depth=2):
    """Copy of `expr` in which every call of an internal one-expression helper (`def f(a, b): return <expr>`, docstring/comments aside) is replaced
    by the helper's return expression with the arguments substituted -- so that rules matching an idiom see through an extracted helper.
    Calls that do not bind cleanly (star arguments, several targets, more than one statement) are left alone."""
    import copy
    from ..resolve import bind_call

    def substitute(tree, mapping):
        class _S(ast.NodeTransformer):
            def visit_Name(self, node):
                if isinstance(node.ctx, ast.Load) and node.id in mapping:
                    return copy.deepcopy(mapping[node.id])
                return node
        return _S().visit(tree)

    def helper_expr(call, d):
        ci = eng.res.calls.get(id(call))
        if ci is None or len(ci.targets) != 1 or d <= 0:
            return None
        t = ci.targets[0]
        fn = t.node
        if not isinstance(fn, (ast.FunctionDef,)):
            return None
        body = [st for st in fn.body if not (isinstance(st, ast.Expr) and isinstance(st.value, ast.Constant))]
        if len(body) != 1 or not isinstance(body[0], ast.Return) or body[0].value is None:
            return None
        bound = any(bd for (tt, bd) in eng.res.call_targets(ci.caller, call) if tt.fid == t.fid)
        b = bind_call(call, t, bound and t.is_method)
        if b.errors or b.star is not None or b.kwstar is not None:
            return None
        mapping = {}
        pos = list(t.posparams)
        if bound and t.is_method and pos:
            if not isinstance(call.func, ast.Attribute):
                return None
            mapping[pos[0]] = call.func.value
            pos = pos[1:]
        for pn in pos + list(t.kwonly):
            e = b.params.get(pn)
            if e is None or isinstance(e, tuple):
                dflt = t.defaults.get(pn)
                if dflt is None:
                    return None
                e = dflt
            mapping[pn] = tx(e, d)
        return substitute(tx_children(copy.copy(body[0].value), d - 1, callee=True), mapping)

    def tx_children(node, d, callee=False):
        for field, val in ast.iter_fields(node):
            if isinstance(val, list):
                setattr(node, field, [tx(v, d) if isinstance(v, ast.AST) else v for v in val])
            elif isinstance(val, ast.AST):
                setattr(node, field, tx(val, d))
        return node

    def tx(node, d):
        if isinstance(node, ast.Call):
            r = helper_expr(node, d)
            if r is not None:
                return r
        return tx_children(copy.copy(node), d)

    return tx(expr, depth)


class _FnView(object):
    """A FunctionInfo look-alike whose body was rewritten (used to build a CFG over the rewritten body)."""
    def __init__(self, fi, body):
        self._fi = fi
        self._body = body

    def __getattr__(self, name):
        return getattr(self._fi, name)

    def body(self):
        return self._body


def unrolled(eng, fi, limit=64):
    """`for k in ("a", "b", ...): body` over a literal sequence of constants -- written in place or bound to a module-level name -- is the same program
    as the bodies written out one after the other.  Returns (function view, CFG over the unrolled body); the original objects if nothing was unrolled."""
    import copy
    from ..cfg import CFG
    glob = eng.prog.modules[fi.module].globals if fi.module in eng.prog.modules else {}

    def literal_seq(it):
        if isinstance(it, ast.Name) and it.id in glob:
            it = glob[it.id]
        if isinstance(it, (ast.Tuple, ast.List)) and it.elts and len(it.elts) <= limit and all(isinstance(e, ast.Constant) for e in it.elts):
            return list(it.elts)
        return None

    def subst(stmt, name, const):
        class _S(ast.NodeTransformer):
            def visit_Name(self, node):
                if node.id == name and isinstance(node.ctx, ast.Load):
                    return ast.copy_location(ast.Constant(value=const.value), node)
                return node
        return _S().visit(copy.deepcopy(stmt))

    def simple(body, name):
        for st in body:
            for sub in ast.walk(st):
                if isinstance(sub, (ast.Break, ast.Continue)):
                    return False
                if isinstance(sub, ast.Name) and sub.id == name and isinstance(sub.ctx, ast.Store):
                    return False
        return True

    def tx(stmts):
        out, changed = [], False
        for st in stmts:
            if isinstance(st, ast.For) and isinstance(st.target, ast.Name) and not st.orelse and simple(st.body, st.target.id):
                seq = literal_seq(st.iter)
                if seq is not None:
                    for c in seq:
                        out += [subst(b, st.target.id, c) for b in st.body]
                    changed = True
                    continue
            new = st
            for field in ("body", "orelse", "finalbody"):
                sub = getattr(st, field, None)
                if isinstance(sub, list) and sub and isinstance(sub[0], ast.stmt):
                    nl, ch = tx(sub)
                    if ch:
                        if new is st:
                            new = copy.copy(st)
                        setattr(new, field, nl)
                        changed = True
            out.append(new)
        return out, changed

    body, changed = tx(fi.body())
    if not changed:
        return fi, eng.cfg(fi)
    view = _FnView(fi, body)
    return view, CFG(view)


def capacity_fields(eng):
    """Names of the Model field(s) that hold the requested size of the interpolation set: what Model.__init__ stores from the constructor parameter that
    receives, through Controller.__init__, the `npt` of solve_main.  (Derived, not assumed: today `num_pts`.)"""
    from ..resolve import bind_call
    out = set()
    cinit = eng.fn("controller.Controller.__init__")
    minit = eng.fn("model.Model.__init__")
    sm = eng.fn("solver.solve_main")
    cparams = set()
    for ci in eng.calls_in(sm):
        if ci.kind == "CTOR" and any(t.cls == "Controller" for t in ci.targets):
            b = bind_call(ci.node, cinit, True)
            for pn, e in b.params.items():
                if isinstance(e, ast.Name) and e.id == "npt":
                    cparams.add(pn)
    mparams = set()
    for ci in eng.calls_in(cinit):
        if ci.kind == "CTOR" and any(t.cls == "Model" for t in ci.targets):
            b = bind_call(ci.node, minit, True)
            for pn, e in b.params.items():
                if isinstance(e, ast.Name) and e.id in cparams:
                    mparams.add(pn)
    selfn = minit.posparams[0]
    for node in eng.prog.own_nodes(minit):
        if isinstance(node, ast.Assign) and isinstance(node.value, ast.Name) and node.value.id in mparams:
            for t in node.targets:
                if isinstance(t, ast.Attribute) and isinstance(t.value, ast.Name) and t.value.id == selfn:
                    out.add(t.attr)
    if not out:
        raise AnalysisError("cannot derive the Model field that stores the requested number of interpolation points")
    return out


def coordinate_precondition(eng):
    """The `assert <capacity> <= <bound>` of Controller.initialise_coordinate_directions (None if absent)."""
    ic = eng.fn("controller.Controller.initialise_coordinate_directions")
    caps = capacity_fields(eng)
    for node in eng.prog.own_nodes(ic):
        if isinstance(node, ast.Assert) and isinstance(node.test, ast.Compare) and len(node.test.ops) == 1 and isinstance(node.test.ops[0], (ast.LtE, ast.Lt)) \
                and ekey(node.test.left).split(".")[-1] in caps:
            return node.test
    return None


def expanded_guard_atoms(eng, atoms):
    """Guard atoms with boolean one-expression helpers looked through: `not _has_bad_values(g, H)` with `def _has_bad_values(g, H): return A or B or not C` is the
    conjunction of not A, not B, C.  Returns the original atoms plus the derived ones."""
    from ..norm import Atom
    out = list(atoms)
    work = list(atoms)
    seen = 0
    while work and seen < 200:
        a = work.pop()
        seen += 1
        if a.op not in ("truth", "false") or a.lhs is None:
            continue
        e = a.lhs
        if isinstance(e, ast.Call):
            ie = inline_simple_calls(eng, e, depth=1)
            if isinstance(ie, ast.Call):
                continue
            e = ie
        neg = a.op == "false"
        if isinstance(e, ast.UnaryOp) and isinstance(e.op, ast.Not):
            na = atom_of(e.operand, neg)           # not X being `neg`-false means X has truth `neg`
            out.append(na)
            work.append(na)
        elif isinstance(e, ast.BoolOp):
            if (isinstance(e.op, ast.Or) and neg) or (isinstance(e.op, ast.And) and not neg):
                for v in e.values:
                    na = atom_of(v, not neg)
                    out.append(na)
                    work.append(na)
        elif e is not a.lhs:
            na = atom_of(e, not neg)
            out.append(na)
            work.append(na)
    return out


def lowered_enumerate(eng, fi):
    """`for i, v in enumerate(X): ... v ...`  ==  `for i in range(0, len(X)): ... X[i] ...`  (v not re-assigned in the body).  Returns (function view, CFG) over the
    lowered body -- the original objects if the function has no such loop.  Sub-trees that do not mention v keep their identity (resolved-call tables keep working)."""
    import copy
    from ..cfg import CFG

    def assigns(body, name):
        return any(isinstance(x, ast.Name) and x.id == name and isinstance(x.ctx, (ast.Store, ast.Del)) for b_ in body for x in ast.walk(b_))

    def tx(stmts):
        out, changed = [], False
        for st in stmts:
            new = st
            if isinstance(st, ast.For) and isinstance(st.target, ast.Tuple) and len(st.target.elts) == 2 and all(isinstance(e, ast.Name) for e in st.target.elts) \
                    and isinstance(st.iter, ast.Call) and isinstance(st.iter.func, ast.Name) and st.iter.func.id == "enumerate" and len(st.iter.args) == 1 \
                    and isinstance(st.iter.args[0], ast.Name) and not assigns(st.body, st.target.elts[1].id) and not assigns(st.body, st.iter.args[0].id):
                i, v, X = st.target.elts[0], st.target.elts[1].id, st.iter.args[0]

                def repl(n, v=v, X=X, i=i):
                    if isinstance(n, ast.Name) and n.id == v and isinstance(n.ctx, ast.Load):
                        return ast.copy_location(ast.Subscript(value=ast.Name(id=X.id, ctx=ast.Load()), slice=ast.Name(id=i.id, ctx=ast.Load()), ctx=ast.Load()), n)
                    return None
                new = copy.copy(st)
                new.target = ast.copy_location(ast.Name(id=i.id, ctx=ast.Store()), st.target)
                new.iter = ast.copy_location(ast.Call(func=ast.Name(id="range", ctx=ast.Load()),
                                                      args=[ast.Constant(value=0), ast.Call(func=ast.Name(id="len", ctx=ast.Load()), args=[ast.Name(id=X.id, ctx=ast.Load())], keywords=[])], keywords=[]), st.iter)
                new.body = [rebuild(b_, repl) for b_ in st.body]
                ast.fix_missing_locations(new)
                changed = True
            for field in ("body", "orelse", "finalbody"):
                sub = getattr(new, field, None)
                if isinstance(sub, list) and sub and isinstance(sub[0], ast.stmt):
                    nl, ch = tx(sub)
                    if ch:
                        if new is st:
                            new = copy.copy(st)
                        setattr(new, field, nl)
                        changed = True
            out.append(new)
        return out, changed

    body, changed = tx(fi.body())
    if not changed:
        return fi, eng.cfg(fi)
    view = _FnView(fi, body)
    return view, CFG(view)


def effective_target_fids(eng, call, depth=2):
    """fids a call resolves to, looking through thin wrappers (`def f(..): [local = ..;] return g(..)`): a wrapper whose only return hands back the result of one
    internal call also counts as a call of that callee."""
    ci = eng.res.calls.get(id(call))
    out = set()
    if ci is None:
        return out
    for t in ci.targets:
        out.add(t.fid)
        if depth > 0 and not t.is_lambda and isinstance(t.node, ast.FunctionDef):
            rets = [r for r in eng.prog.own_nodes(t) if isinstance(r, ast.Return) and r.value is not None]
            if len(rets) == 1 and isinstance(rets[0].value, ast.Call) and id(rets[0].value) in eng.res.calls:
                out |= effective_target_fids(eng, rets[0].value, depth - 1)
    return out


def tuple_position_from_call(eng, cfg, at_stmt, expr, target_fids, depth=3):
    """If `expr` (evaluated in at_stmt) is position i of the tuple returned by a call resolving to one of target_fids, return (i, key of the call); else None.
    Forms looked through: `a, b, c = f()`, `a, b, c = f()[:3]` / `f()[1:4]`, `res = f(); res[i]`, `f()[i]`, plain copies `y = x`."""
    def is_target(call):
        ci = eng.res.calls.get(id(call)) if isinstance(call, ast.Call) else None
        return ci is not None and any(t.fid in target_fids for t in ci.targets)

    def sliced(v):
        """(call, offset) for f() / f()[a:b]"""
        if is_target(v):
            return v, 0
        if isinstance(v, ast.Subscript) and isinstance(v.slice, ast.Slice) and v.slice.step is None and is_target(v.value):
            lo = v.slice.lower
            if lo is None:
                return v.value, 0
            if isinstance(lo, ast.Constant) and isinstance(lo.value, int) and lo.value >= 0:
                return v.value, lo.value
        return None, None

    if depth <= 0:
        return None
    if isinstance(expr, ast.Subscript) and isinstance(expr.slice, ast.Constant) and isinstance(expr.slice.value, int) and expr.slice.value >= 0:
        if is_target(expr.value):
            return expr.slice.value, id(expr.value)
        if isinstance(expr.value, ast.Name):
            defs = cfg.defs_reaching(at_stmt, expr.value.id)
            got = set()
            for dn in defs:
                ds = cfg.ast_of(dn)
                if isinstance(ds, ast.Assign) and len(ds.targets) == 1 and isinstance(ds.targets[0], ast.Name):
                    call, off = sliced(ds.value)
                    got.add((expr.slice.value + off, id(call)) if call is not None else None)
                else:
                    got.add(None)
            if len(got) == 1 and None not in got:
                return got.pop()
        return None
    if isinstance(expr, ast.Name):
        got = set()
        for dn in cfg.defs_reaching(at_stmt, expr.id):
            ds = cfg.ast_of(dn)
            if isinstance(ds, ast.Assign) and len(ds.targets) == 1 and isinstance(ds.targets[0], (ast.Tuple, ast.List)):
                call, off = sliced(ds.value)
                names = assigned_names(ds.targets[0])
                if call is not None and expr.id in names and not any(isinstance(e, ast.Starred) for e in ds.targets[0].elts):
                    got.add((names.index(expr.id) + off, id(call)))
                    continue
            elif isinstance(ds, ast.Assign) and len(ds.targets) == 1 and isinstance(ds.targets[0], ast.Name):
                got.add(tuple_position_from_call(eng, cfg, ds, ds.value, target_fids, depth - 1))
                continue
            got.add(None)
        if len(got) == 1 and None not in got:
            return got.pop()
    return None


def expand_unpacked(cfg, at_ast, expr):
    """Copy of expr in which a local bound by exactly one destructuring `a, b = X` (X a plain name / attribute) is replaced by `X[i]`, and single-definition
    temporaries are looked through (expand_locals)."""
    import copy

    class _Sub(ast.NodeTransformer):
        def visit_Name(self, node):
            if not isinstance(node.ctx, ast.Load):
                return node
            try:
                defs = cfg.defs_reaching(at_ast, node.id)
            except Exception:
                return node
            if len(defs) != 1:
                return node
            st = cfg.ast_of(list(defs)[0])
            if isinstance(st, ast.Assign) and len(st.targets) == 1 and isinstance(st.targets[0], (ast.Tuple, ast.List)) and isinstance(st.value, (ast.Name, ast.Attribute)) \
                    and not any(isinstance(e, ast.Starred) for e in st.targets[0].elts):
                names = [e.id if isinstance(e, ast.Name) else None for e in st.targets[0].elts]
                if node.id in names:
                    return ast.copy_location(ast.Subscript(value=copy.deepcopy(st.value), slice=ast.Constant(value=names.index(node.id)), ctx=ast.Load()), node)
            return node
    return _Sub().visit(expand_locals(cfg, at_ast, expr))


def field_write_summaries(eng):
    """fid -> set of attribute names the function can write (X.attr = .., X.attr[..] = .., X.attr op= ..), directly or through resolved internal calls
    (transitive closure; receiver classes are not distinguished -- an over-approximation of the effect)."""
    cache = getattr(eng, "_field_write_summaries", None)
    if cache is not None:
        return cache
    direct = {}
    for fi in eng.prog.functions.values():
        w = set()
        for node in eng.prog.own_nodes(fi):
            tg = node.targets if isinstance(node, ast.Assign) else ([node.target] if isinstance(node, (ast.AugAssign, ast.AnnAssign)) else [])
            for t in tg:
                for el in (t.elts if isinstance(t, (ast.Tuple, ast.List)) else [t]):
                    r = el
                    while isinstance(r, ast.Subscript):
                        r = r.value
                    if isinstance(r, ast.Attribute):
                        w.add(r.attr)
        direct[fi.fid] = w
    may = dict((k, set(v)) for k, v in direct.items())
    changed = True
    while changed:
        changed = False
        for fi in eng.prog.functions.values():
            for ci in eng.calls_in(fi):
                for t in ci.targets:
                    if t.fid in may and not may[t.fid] <= may[fi.fid]:
                        may[fi.fid] |= may[t.fid]
                        changed = True
    eng._field_write_summaries = may
    return may


def storage_version(eng, fi, cfg, loc, exprs):
    """A label for "the values of the names / attributes mentioned in `exprs` as seen at CFG node `loc`": the set of statements of fi that can write one of them
    (assignment to the name / the attribute, or a resolved internal call whose effect summary writes the attribute) and from which `loc` can be reached.
    Two evaluations of the same expression text are the same proposition only if their labels agree (no write can separate them); a writer that shares a loop
    with `loc` makes the label unique to `loc`."""
    names, attrs = set(), set()
    for e in exprs:
        if e is None:
            continue
        for sub in ast.walk(e):
            if isinstance(sub, ast.Attribute):
                attrs.add(sub.attr)
            elif isinstance(sub, ast.Name):
                names.add(sub.id)
    summ = field_write_summaries(eng)
    writers = []
    for n, d in cfg.g.nodes(data=True):
        st = d.get("ast")
        if st is None or d.get("kind") not in ("stmt", "cond"):
            continue
        hit = False
        if d.get("kind") == "stmt":
            tg = st.targets if isinstance(st, ast.Assign) else ([st.target] if isinstance(st, (ast.AugAssign, ast.AnnAssign)) else [])
            for t in tg:
                for el in (t.elts if isinstance(t, (ast.Tuple, ast.List)) else [t]):
                    r = el
                    while isinstance(r, ast.Subscript):
                        r = r.value
                    if isinstance(r, ast.Attribute) and r.attr in attrs:
                        hit = True
                    if isinstance(r, ast.Name) and r.id in names:
                        hit = True
        if not hit and attrs:
            for sub in ast.walk(st):
                if isinstance(sub, ast.Call):
                    ci = eng.res.calls.get(id(sub))
                    if ci is not None and any(summ.get(t.fid, set()) & attrs for t in ci.targets):
                        hit = True
                        break
        if hit:
            writers.append(n)
    label = []
    for w in writers:
        if w == loc:
            continue
        if cfg.path_avoiding(w, loc, []) is not None:
            if cfg.path_avoiding(loc, w, []) is not None:
                return "@%s" % (loc,)           # writer and reader share a cycle: unique
            label.append(w)
    return "v" + ",".join(str(x) for x in sorted(label, key=str))
