"""Helpers shared by the rule modules."""
import ast

from ..loader import AnalysisError, ekey
from ..norm import atom_of, const_value, is_none

PARAMS_CALL = "params.ParameterList.__call__"


def mentions(node):
    """Names and attribute names mentioned in an expression."""
    out = set()
    if node is None:
        return out
    for sub in ast.walk(node):
        if isinstance(sub, ast.Name):
            out.add(sub.id)
        elif isinstance(sub, ast.Attribute):
            out.add(sub.attr)
    return out


def guards_of(cfg, cfgnode, include_loops=False):
    """Atoms (cond nodes with outcome) that guard the node: the cond dominates it and only that outcome leads to it."""
    out = []
    for (b, lab) in cfg.dominating_guards(cfgnode):
        out.append((b, atom_of(cfg.ast_of(b), lab)))
    return out


def calls_in_expr(node):
    return [n for n in ast.walk(node) if isinstance(n, ast.Call)]


def param_key(eng, call):
    """Literal parameter key if `call` is a ParameterList.__call__ with a literal first argument, else None."""
    ci = eng.res.calls.get(id(call))
    if ci is None or not any(t.fid == PARAMS_CALL for t in ci.targets):
        return None
    if call.args and isinstance(call.args[0], ast.Constant) and isinstance(call.args[0].value, str):
        return call.args[0].value
    for kw in call.keywords:
        if kw.arg == "key" and isinstance(kw.value, ast.Constant):
            return kw.value.value
    return None


def param_keys_in(eng, node):
    out = set()
    for c in calls_in_expr(node):
        k = param_key(eng, c)
        if k is not None:
            out.add(k)
    return out


def is_param_set(call):
    return any(kw.arg == "new_value" for kw in call.keywords) or len(call.args) >= 2


def targets_fids(eng, call):
    ci = eng.res.calls.get(id(call))
    return set(t.fid for t in ci.targets) if ci else set()


def calls_to_in(eng, fi, fid):
    """Call nodes inside function fi that resolve to fid."""
    return [c.node for c in eng.calls_in(fi) if any(t.fid == fid for t in c.targets)]


def assigned_names(target):
    out = []
    if isinstance(target, ast.Name):
        out.append(target.id)
    elif isinstance(target, (ast.Tuple, ast.List)):
        for e in target.elts:
            out += assigned_names(e)
    elif isinstance(target, ast.Starred):
        out += assigned_names(target.value)
    return out


def stmt_nodes(cfg, pred):
    """CFG stmt nodes whose AST satisfies pred."""
    return [n for n, d in cfg.g.nodes(data=True) if d["kind"] == "stmt" and pred(d["ast"])]


def arg_of(eng, call, target_fi, pname, bound=None):
    """Expression bound to parameter pname of target_fi at this call (None if default / absent)."""
    from ..resolve import bind_call
    if bound is None:
        bound = False
        for t, b in eng.res.call_targets(eng.res.calls[id(call)].caller, call):
            if t.fid == target_fi.fid:
                bound = b
    b = bind_call(call, target_fi, bound and target_fi.is_method)
    e = b.params.get(pname)
    if isinstance(e, tuple):
        return None
    return e


def short(node, n=70):
    s = ekey(node).replace("\n", " ")
    return s if len(s) <= n else s[:n - 3] + "..."


def expand_locals(cfg, at_ast, expr, depth=3):
    """Copy of `expr` in which every local name with exactly one reaching definition of the form `name = <value>` is replaced by that value
    (explaining variables / single-use temporaries are looked through).  `at_ast` is the statement in which expr is evaluated."""
    import copy

    class _Sub(ast.NodeTransformer):
        def visit_Name(self, node):
            if not isinstance(node.ctx, ast.Load) or depth <= 0:
                return node
            try:
                defs = cfg.defs_reaching(at_ast, node.id)
            except Exception:
                return node
            if len(defs) != 1:
                return node
            st = cfg.ast_of(list(defs)[0])
            if isinstance(st, ast.Assign) and len(st.targets) == 1 and isinstance(st.targets[0], ast.Name) and st.targets[0].id == node.id:
                return expand_locals(cfg, st, st.value, depth - 1)
            return node

    return _Sub().visit(copy.deepcopy(expr))
