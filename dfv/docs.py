"""Registries documented in /repo/docs/*.rst (bullet lines of the form  * :code:`name` - ...)."""
import hashlib
import os
import re

from .loader import AnalysisError

BULLET = re.compile(r"^\*\s+:code:`([^`]+)`")


class Docs(object):
    def __init__(self, root):
        self.dir = os.path.join(root, "docs")
        self.hashes = {}
        self.exit_codes = self._bullets("userguide.rst", lambda s: s.startswith("soln.EXIT_"), strip="soln.")
        self.result_attrs = self._bullets("userguide.rst", lambda s: s.startswith("soln.") and not s.startswith("soln.EXIT_"), strip="soln.")
        self.param_keys = self._bullets("advanced.rst", lambda s: re.match(r"^[a-z_]+(\.[a-z_A-Z0-9]+)+$", s) is not None)
        self.diag_columns = self._bullets("diagnostic.rst", lambda s: re.match(r"^[a-z_A-Z]+$", s) is not None)

    def _bullets(self, fname, pred, strip=""):
        path = os.path.join(self.dir, fname)
        if not os.path.exists(path):
            raise AnalysisError("documentation anchor docs/%s vanished" % fname)
        raw = open(path, "rb").read()
        self.hashes["docs/" + fname] = hashlib.sha256(raw).hexdigest()
        out = []
        for line in raw.decode("utf-8").splitlines():
            m = BULLET.match(line.strip())
            if m and pred(m.group(1)):
                name = m.group(1)
                if strip and name.startswith(strip):
                    name = name[len(strip):]
                if name not in out:
                    out.append(name)
        return out
