"""Statement-level control-flow graph with atomic condition nodes.

Node kinds
  entry, exit          unique; every `return` and the fall-through end go to exit (edge kind 'return'/'fall')
  raise_exit           target of `raise` (and of failed asserts when assert_branches=True)
  stmt                 a simple statement (Assign, AugAssign, Expr, Return, Raise, Assert, Pass, Break, Continue,
                       Import, FunctionDef, Delete, Global ...)
  cond                 an atomic test (no and/or/not at top level); out-edges labelled True / False
  foriter              evaluates the iterable of a `for`
  for                  loop head of a `for`: defines the target; out-edges labelled 'iter' / 'done'
  loophead             head of a `while`
  handler              entry of an `except` clause
Edges carry  label (True/False/'iter'/'done'/None)  and  kind ('normal','back','break','continue','return','raise','exc','fall').
"""
import ast
import networkx as nx

from .loader import AnalysisError, ekey


class CFG(object):
    def __init__(self, fi, prog=None):
        self.fi = fi
        self.g = nx.DiGraph()
        self._n = 0
        self.entry = self._new("entry")
        self.exit = self._new("exit")
        self.raise_exit = self._new("raise_exit")
        self.node_of_ast = {}     # id(ast node) -> cfg node id
        self.loops = []           # (head node, kind, ast stmt)
        self._loop_stack = []
        self._try_stack = []
        out = self._seq(fi.body(), [(self.entry, None)])
        self._connect(out, self.exit, kind="fall")
        self._index_ast()
        self._dom = None
        self._pdom = None
        self._cdep = None
        self._rd = None

    # ------------------------------------------------------------------ construction
    def _new(self, kind, node=None, stmt=None):
        self._n += 1
        nid = self._n
        self.g.add_node(nid, kind=kind, ast=node, stmt=stmt if stmt is not None else node)
        if self._try_stack_safe():
            for handlers in self._try_stack:
                for h in handlers:
                    self.g.add_edge(nid, h, label=None, kind="exc")
        return nid

    def _try_stack_safe(self):
        return getattr(self, "_try_stack", None)

    def _connect(self, pending, target, kind="normal"):
        for (n, label) in pending:
            if self.g.has_edge(n, target):
                # keep both labels if a cond goes to the same node on both outcomes
                old = self.g[n][target]
                if old.get("label") != label:
                    old["label"] = "both"
                continue
            self.g.add_edge(n, target, label=label, kind=kind)

    def _seq(self, stmts, pending):
        for st in stmts:
            pending = self._stmt(st, pending)
        return pending

    def _cond(self, test, pending, stmt):
        """Returns (true_pending, false_pending)."""
        if isinstance(test, ast.BoolOp) and isinstance(test.op, ast.And):
            falses = []
            cur = pending
            for v in test.values:
                t, f = self._cond(v, cur, stmt)
                falses += f
                cur = t
            return cur, falses
        if isinstance(test, ast.BoolOp) and isinstance(test.op, ast.Or):
            trues = []
            cur = pending
            for v in test.values:
                t, f = self._cond(v, cur, stmt)
                trues += t
                cur = f
            return trues, cur
        if isinstance(test, ast.UnaryOp) and isinstance(test.op, ast.Not):
            t, f = self._cond(test.operand, pending, stmt)
            return f, t
        if isinstance(test, ast.Constant) and test.value is True:
            return pending, []
        if isinstance(test, ast.Constant) and test.value is False:
            return [], pending
        n = self._new("cond", test, stmt)
        self._connect(pending, n)
        return [(n, True)], [(n, False)]

    def _stmt(self, st, pending):
        if isinstance(st, ast.If):
            t, f = self._cond(st.test, pending, st)
            out_t = self._seq(st.body, t)
            out_f = self._seq(st.orelse, f)
            return out_t + out_f
        if isinstance(st, ast.While):
            head = self._new("loophead", None, st)
            self.loops.append((head, "while", st))
            self._connect(pending, head)
            t, f = self._cond(st.test, [(head, None)], st)
            ctx = {"head": head, "breaks": []}
            self._loop_stack.append(ctx)
            out = self._seq(st.body, t)
            self._loop_stack.pop()
            self._connect(out, head, kind="back")
            after = self._seq(st.orelse, f)
            return after + ctx["breaks"]
        if isinstance(st, ast.For):
            it = self._new("foriter", st.iter, st)
            self._connect(pending, it)
            head = self._new("for", st.target, st)
            self.loops.append((head, "for", st))
            self._connect([(it, None)], head)
            ctx = {"head": head, "breaks": []}
            self._loop_stack.append(ctx)
            out = self._seq(st.body, [(head, "iter")])
            self._loop_stack.pop()
            self._connect(out, head, kind="back")
            after = self._seq(st.orelse, [(head, "done")])
            return after + ctx["breaks"]
        if isinstance(st, ast.Try):
            if st.finalbody:
                raise AnalysisError("unsupported idiom: try/finally in %s" % self.fi.fid)
            # handler entries are created outside the protected region
            handlers = []
            for h in st.handlers:
                handlers.append(self._new("handler", h, h))
            self._try_stack.append(handlers)
            # the state before the first protected statement can reach a handler too
            out = self._seq(st.body, pending)
            self._try_stack.pop()
            out = self._seq(st.orelse, out)
            for h, hn in zip(st.handlers, handlers):
                out += self._seq(h.body, [(hn, None)])
            return out
        if isinstance(st, ast.With):
            n = self._new("stmt", st, st)  # item expressions
            self._connect(pending, n)
            return self._seq(st.body, [(n, None)])
        if isinstance(st, (ast.Match,)) if hasattr(ast, "Match") else False:
            raise AnalysisError("unsupported idiom: match statement in %s" % self.fi.fid)
        if isinstance(st, (ast.AsyncFor, ast.AsyncWith, ast.AsyncFunctionDef)):
            raise AnalysisError("unsupported idiom: async in %s" % self.fi.fid)
        if isinstance(st, ast.ClassDef):
            n = self._new("stmt", st, st)
            self._connect(pending, n)
            return [(n, None)]
        n = self._new("stmt", st, st)
        self._connect(pending, n)
        if isinstance(st, ast.Return):
            self.g.add_edge(n, self.exit, label=None, kind="return")
            return []
        if isinstance(st, ast.Assert) and isinstance(st.test, ast.Constant) and st.test.value is False:
            self.g.add_edge(n, self.raise_exit, label=None, kind="raise")
            return []
        if isinstance(st, ast.Raise):
            targets = self._try_stack[-1] if self._try_stack else []
            self.g.add_edge(n, self.raise_exit, label=None, kind="raise")
            return []
        if isinstance(st, ast.Break):
            if not self._loop_stack:
                raise AnalysisError("break outside loop in %s" % self.fi.fid)
            self._loop_stack[-1]["breaks"].append((n, None))
            self.g.nodes[n]["jump"] = "break"
            return []
        if isinstance(st, ast.Continue):
            if not self._loop_stack:
                raise AnalysisError("continue outside loop in %s" % self.fi.fid)
            self.g.add_edge(n, self._loop_stack[-1]["head"], label=None, kind="continue")
            self.g.nodes[n]["jump"] = "continue"
            return []
        return [(n, None)]

    def _index_ast(self):
        for nid, d in self.g.nodes(data=True):
            node = d.get("ast")
            if node is None:
                continue
            if d["kind"] == "handler":
                if node.type is not None:
                    for sub in ast.walk(node.type):
                        self.node_of_ast[id(sub)] = nid
                self.node_of_ast[id(node)] = nid
                continue
            if isinstance(node, ast.With):
                self.node_of_ast[id(node)] = nid
                for item in node.items:
                    for sub in ast.walk(item):
                        self.node_of_ast[id(sub)] = nid
                continue
            if isinstance(node, (ast.FunctionDef, ast.ClassDef)):
                self.node_of_ast[id(node)] = nid
                if isinstance(node, ast.FunctionDef):
                    for dflt in node.args.defaults + [k for k in node.args.kw_defaults if k is not None]:
                        for sub in ast.walk(dflt):
                            self.node_of_ast[id(sub)] = nid
                continue
            stack = [node]
            while stack:
                cur = stack.pop()
                self.node_of_ast[id(cur)] = nid
                if isinstance(cur, ast.Lambda):
                    # lambda body is another function; its defaults belong here
                    for dflt in cur.args.defaults:
                        stack.append(dflt)
                    continue
                stack.extend(ast.iter_child_nodes(cur))

    # ------------------------------------------------------------------ queries
    def kind(self, n):
        return self.g.nodes[n]["kind"]

    def ast_of(self, n):
        return self.g.nodes[n]["ast"]

    def stmt_of(self, n):
        return self.g.nodes[n]["stmt"]

    def nodes_of_kind(self, kind):
        return [n for n, d in self.g.nodes(data=True) if d["kind"] == kind]

    def cfg_node(self, astnode):
        nid = self.node_of_ast.get(id(astnode))
        if nid is None:
            raise AnalysisError("AST node %s has no CFG node in %s" % (ekey(astnode)[:60], self.fi.fid))
        return nid

    def succ(self, n, with_exc=True):
        for m in self.g.successors(n):
            if not with_exc and self.g[n][m]["kind"] == "exc":
                continue
            yield m, self.g[n][m]

    def pred(self, n, with_exc=True):
        for m in self.g.predecessors(n):
            if not with_exc and self.g[m][n]["kind"] == "exc":
                continue
            yield m, self.g[m][n]

    def reachable(self):
        return set(nx.descendants(self.g, self.entry)) | {self.entry}

    def dominators(self):
        if self._dom is None:
            self._dom = nx.immediate_dominators(self.g, self.entry)
        return self._dom

    def dominates(self, a, b):
        """a dominates b (every path entry->b passes a)."""
        idom = self.dominators()
        if b not in idom:
            return True  # unreachable
        cur = b
        while True:
            if cur == a:
                return True
            nxt = idom.get(cur)
            if nxt is None or nxt == cur:
                return False
            cur = nxt

    def _vexit_graph(self):
        g = self.g.copy()
        vexit = 0
        g.add_node(vexit)
        g.add_edge(self.exit, vexit)
        g.add_edge(self.raise_exit, vexit)
        # infinite loops: make every node reach vexit (nodes that cannot reach exit get a virtual edge)
        can = nx.ancestors(g, vexit) | {vexit}
        for n in list(g.nodes):
            if n not in can:
                g.add_edge(n, vexit, virtual=True)
        return g, vexit

    def postdominators(self):
        if self._pdom is None:
            g, vexit = self._vexit_graph()
            self._pdom = nx.immediate_dominators(g.reverse(copy=False), vexit)
        return self._pdom

    def postdominates(self, a, b):
        ipd = self.postdominators()
        cur = b
        while True:
            if cur == a:
                return True
            nxt = ipd.get(cur)
            if nxt is None or nxt == cur:
                return False
            cur = nxt

    def control_deps(self):
        """node -> set of (branch node, edge label) the node is directly control dependent on."""
        if self._cdep is None:
            ipd = self.postdominators()
            cdep = {n: set() for n in self.g.nodes}
            for a, b, d in self.g.edges(data=True):
                if d.get("kind") == "exc":
                    continue
                if self.g.out_degree(a) < 2 and self.kind(a) not in ("cond", "for"):
                    continue
                # nodes from b up the post-dominator tree until ipdom(a)
                stop = ipd.get(a)
                cur = b
                seen = set()
                while cur is not None and cur != stop and cur not in seen:
                    seen.add(cur)
                    if cur != a or True:
                        cdep[cur].add((a, d.get("label")))
                    nxt = ipd.get(cur)
                    if nxt == cur:
                        break
                    cur = nxt
            self._cdep = cdep
        return self._cdep

    def dominating_guards(self, n):
        """(cond node, outcome) pairs that *guard* n: the cond dominates n and n is reachable from that outcome's successor only
        (every path from the cond to n that does not pass the cond again starts with that edge)."""
        cache = self.__dict__.setdefault("_domguards", {})
        if n in cache:
            return cache[n]
        idom = self.dominators()
        out = []
        cur = n
        seen = set()
        while cur in idom and cur not in seen:
            seen.add(cur)
            nxt = idom[cur]
            if nxt == cur:
                break
            cur = nxt
            if self.kind(cur) != "cond":
                continue
            reach = {}
            for m in self.g.successors(cur):
                e = self.g[cur][m]
                if e["kind"] == "exc":
                    continue
                lab = e.get("label")
                ok = (m == n) or self.path_avoiding(m, n, [cur]) is not None
                if lab == "both":
                    reach[True] = reach.get(True, False) or ok
                    reach[False] = reach.get(False, False) or ok
                else:
                    reach[lab] = reach.get(lab, False) or ok
            if reach.get(True) and not reach.get(False):
                out.append((cur, True))
            elif reach.get(False) and not reach.get(True):
                out.append((cur, False))
        cache[n] = out
        return out

    def control_closure(self, n):
        """All (branch node, label) pairs n is transitively control dependent on."""
        cdep = self.control_deps()
        out = set()
        work = [n]
        seen = set()
        while work:
            cur = work.pop()
            for (b, lab) in cdep.get(cur, ()):
                if (b, lab) not in out:
                    out.add((b, lab))
                    if b not in seen:
                        seen.add(b)
                        work.append(b)
        return out

    # ------------------------------------------------------------------ reaching definitions
    def defs_of(self, n):
        """(strong defs, weak defs) : sets of variable names defined at CFG node n."""
        d = self.g.nodes[n]
        kind, node = d["kind"], d["ast"]
        strong, weak = set(), set()

        def targets(t, strongset):
            if isinstance(t, ast.Name):
                strongset.add(t.id)
            elif isinstance(t, (ast.Tuple, ast.List)):
                for e in t.elts:
                    targets(e, strongset)
            elif isinstance(t, ast.Starred):
                targets(t.value, strongset)
            elif isinstance(t, (ast.Subscript, ast.Attribute)):
                root = t
                while isinstance(root, (ast.Subscript, ast.Attribute)):
                    root = root.value
                if isinstance(root, ast.Name):
                    weak.add(root.id)

        if kind == "entry":
            strong |= set(self.fi.all_params)
        elif kind == "for":
            targets(node, strong)
        elif kind == "handler":
            if node.name:
                strong.add(node.name)
        elif kind == "stmt":
            if isinstance(node, ast.Assign):
                for t in node.targets:
                    targets(t, strong)
            elif isinstance(node, ast.AnnAssign):
                if node.value is not None:
                    targets(node.target, strong)
            elif isinstance(node, ast.AugAssign):
                targets(node.target, strong)
            elif isinstance(node, (ast.FunctionDef, ast.ClassDef)):
                strong.add(node.name)
            elif isinstance(node, (ast.Import, ast.ImportFrom)):
                for al in node.names:
                    strong.add((al.asname or al.name).split(".")[0])
            elif isinstance(node, ast.With):
                for item in node.items:
                    if item.optional_vars is not None:
                        targets(item.optional_vars, strong)
            elif isinstance(node, ast.Delete):
                for t in node.targets:
                    targets(t, strong)
            # in-place mutation through a method call on a local: x.append(..), x.pop(), x.insert(..)
            if isinstance(node, ast.Expr) and isinstance(node.value, ast.Call):
                f = node.value.func
                if isinstance(f, ast.Attribute) and isinstance(f.value, ast.Name) and \
                        f.attr in ("append", "insert", "extend", "pop", "remove", "sort", "reverse", "clear", "update", "fill"):
                    weak.add(f.value.id)
        # walrus
        if node is not None and kind in ("stmt", "cond", "foriter"):
            for sub in ast.walk(node) if not isinstance(node, (ast.FunctionDef, ast.ClassDef)) else []:
                if isinstance(sub, ast.NamedExpr):
                    targets(sub.target, strong)
        return strong, weak

    def reaching_defs(self):
        """IN sets: node -> frozenset of (var, defnode).  Exceptional edges propagate the IN state of the source."""
        if self._rd is not None:
            return self._rd
        g = self.g
        gen = {}
        for n in g.nodes:
            gen[n] = self.defs_of(n)
        IN = {n: set() for n in g.nodes}
        OUT = {n: set() for n in g.nodes}
        work = list(nx.dfs_preorder_nodes(g, self.entry))
        inwork = set(work)
        while work:
            n = work.pop(0)
            inwork.discard(n)
            new_in = set()
            for p in g.predecessors(n):
                if g[p][n]["kind"] == "exc":
                    new_in |= IN[p]
                    # a partially executed statement may already have performed its definitions
                    new_in |= OUT[p]
                else:
                    new_in |= OUT[p]
            strong, weak = gen[n]
            out = set(x for x in new_in if x[0] not in strong)
            for v in strong:
                out.add((v, n))
            for v in weak:
                out.add((v, n))
            if new_in != IN[n] or out != OUT[n]:
                IN[n] = new_in
                OUT[n] = out
                for s in g.successors(n):
                    if s not in inwork:
                        work.append(s)
                        inwork.add(s)
        self._rd = IN
        self._rd_out = OUT
        return IN

    def defs_reaching(self, astnode, var):
        """CFG def nodes of `var` reaching the evaluation of astnode."""
        n = self.cfg_node(astnode)
        IN = self.reaching_defs()
        return sorted(d for (v, d) in IN[n] if v == var)

    # ------------------------------------------------------------------ path search
    def path_avoiding(self, src, dst, avoid, with_exc=False, edge_ok=None):
        """A shortest path src -> dst that passes through no node of `avoid` (src/dst excluded), or None."""
        from collections import deque
        avoid = set(avoid)
        prev = {src: None}
        dq = deque([src])
        while dq:
            cur = dq.popleft()
            if cur == dst and cur != src:
                break
            for m in self.g.successors(cur):
                e = self.g[cur][m]
                if not with_exc and e["kind"] == "exc":
                    continue
                if edge_ok is not None and not edge_ok(cur, m, e):
                    continue
                if m in prev:
                    continue
                if m in avoid and m != dst:
                    continue
                prev[m] = cur
                dq.append(m)
        if dst not in prev or (dst == src):
            return None
        path = []
        cur = dst
        while cur is not None:
            path.append(cur)
            cur = prev[cur]
        return path[::-1]

    def flag_variables(self):
        """Local names that are only ever assigned the literals True / False (loop-control flags such as `restart_alt_loop`)."""
        if getattr(self, "_flags", None) is not None:
            return self._flags
        vals = {}
        for n, d in self.g.nodes(data=True):
            strong, weak = self.defs_of(n)
            st = d["ast"]
            for v in strong | weak:
                okf = d["kind"] == "stmt" and isinstance(st, ast.Assign) and len(st.targets) == 1 and isinstance(st.targets[0], ast.Name) \
                    and isinstance(st.value, ast.Constant) and isinstance(st.value.value, bool)
                vals.setdefault(v, []).append(okf)
        self._flags = set(v for v, oks in vals.items() if all(oks))
        return self._flags

    def path_avoiding_flag_aware(self, src, dst, avoid, with_exc=False):
        """path_avoiding that does not follow branches contradicted by a flag variable whose value is known along the path: the search runs over
        (node, known flag values); `flag = True` sets, a test `if flag` / `if not flag` filters.  Removes the infeasible paths of the
        `flag = True; break ... if flag: break` idiom."""
        from collections import deque
        flags = self.flag_variables()
        if not flags:
            return self.path_avoiding(src, dst, avoid, with_exc=with_exc)
        avoid = set(avoid)

        def step_state(n, st):
            d = self.g.nodes[n]
            a = d["ast"]
            if d["kind"] == "stmt" and isinstance(a, ast.Assign) and len(a.targets) == 1 and isinstance(a.targets[0], ast.Name) and a.targets[0].id in flags:
                st = dict(st)
                st[a.targets[0].id] = a.value.value
                return frozenset(st.items())
            return st if isinstance(st, frozenset) else frozenset(st.items())

        def edge_feasible(n, e, st):
            d = self.g.nodes[n]
            if d["kind"] != "cond" or e.get("label") not in (True, False):
                return True
            t = d["ast"]
            neg = False
            while isinstance(t, ast.UnaryOp) and isinstance(t.op, ast.Not):
                t, neg = t.operand, not neg
            if isinstance(t, ast.Name) and t.id in flags:
                known = dict(st).get(t.id)
                if known is not None:
                    return (known != neg) == e["label"]
            return True

        s0 = step_state(src, frozenset())
        start = (src, s0)
        prev = {start: None}
        dq = deque([start])
        goal = None
        while dq:
            cur = dq.popleft()
            n, st = cur
            if n == dst and cur != start:
                goal = cur
                break
            for m in self.g.successors(n):
                e = self.g[n][m]
                if not with_exc and e["kind"] == "exc":
                    continue
                if not edge_feasible(n, e, dict(st)):
                    continue
                if m in avoid and m != dst:
                    continue
                nxt = (m, step_state(m, dict(st)))
                if nxt in prev:
                    continue
                prev[nxt] = cur
                dq.append(nxt)
        if goal is None:
            return None
        path = []
        cur = goal
        while cur is not None:
            path.append(cur[0])
            cur = prev[cur]
        return path[::-1]

    def loop_nodes(self, head):
        """Natural loop of `head`: head plus every node that reaches a back-edge source without passing through head."""
        cache = self.__dict__.setdefault("_loopnodes", {})
        if head in cache:
            return cache[head]
        body = {head}
        work = [p for p in self.g.predecessors(head) if self.g[p][head]["kind"] in ("back", "continue")]
        while work:
            n = work.pop()
            if n in body:
                continue
            body.add(n)
            for p in self.g.predecessors(n):
                if self.g[p][n]["kind"] == "exc":
                    continue
                if p not in body:
                    work.append(p)
        cache[head] = body
        return body

    def cycle_through(self, n, avoid=()):
        """A path n -> ... -> n (length >= 1) avoiding `avoid`, or None."""
        for m in self.g.successors(n):
            if self.g[n][m]["kind"] == "exc" or m in avoid:
                continue
            if m == n:
                return [n, n]
            p = self.path_avoiding(m, n, avoid)
            if p is not None:
                return [n] + p
        return None

    def describe(self, n):
        d = self.g.nodes[n]
        node = d["ast"]
        line = getattr(d["stmt"], "lineno", None) if d["stmt"] is not None else None
        txt = d["kind"]
        if node is not None and d["kind"] != "handler":
            if isinstance(node, (ast.FunctionDef, ast.ClassDef)):
                txt = "def %s" % node.name
            else:
                txt = ekey(node)
        elif d["kind"] == "handler":
            txt = "except %s" % ekey(node.type)
        txt = txt.replace("\n", " ")
        if len(txt) > 90:
            txt = txt[:87] + "..."
        return "%s%s" % ("L%d: " % line if line else "", txt)

    def describe_path(self, path):
        out = []
        for a, b in zip(path, path[1:]):
            lab = self.g[a][b].get("label")
            s = self.describe(a)
            if lab is not None:
                s += "  [%s]" % lab
            out.append(s)
        if path:
            out.append(self.describe(path[-1]))
        return out


_CACHE = {}


def cfg_of(fi):
    key = id(fi.node)
    c = _CACHE.get(key)
    if c is None or c.fi is not fi:
        c = CFG(fi)
        _CACHE[key] = c
    return c
