"""Coordinate-frame typing (T5) by abstract interpretation, context-sensitive through memoised re-analysis.

Frames of vectors
    U   user coordinates (what objfun / h / prox_uh / the caller see)
    A   internal absolute coordinates (scaled to the unit box) -- only exists when scaling is active
    R   relative to the moving base point (positions relative to Model.xbase and displacements alike)
    ?   unknown / frame-less (freshly allocated arrays, gradients, residuals): compatible with everything
Algebra (P is U or A):  P +/- R = P,  R +/- R = R,  P - P = R,  P + P = mismatch,  R - P = mismatch,  U with A = mismatch.
`remove_scaling` maps A -> U and `apply_scaling` U -> A when scaling is active and are the identity otherwise, so one
algebra serves all configurations.

Exactness: a vector carries a set of facts ('lo', tag) / ('hi', tag): "componentwise >= / <= the bound vector `tag`,
exactly (last operation was a clamp / a selection of such)".  Any arithmetic clears the facts and records where.

The interpreter is run once per configuration of the three global switches (scaling, projections, regulariser); tests
on those switches are constant-folded.  Nothing from dfols is executed: this is an interpreter of the AST over the
abstract domain above.
"""
import ast
from collections import namedtuple

from .loader import AnalysisError, ekey
from .norm import const_value, is_none
from .resolve import bind_call

_V = namedtuple("V", "k f ex tag items why truth nul")


def V(k, f=None, ex=frozenset(), tag=None, items=None, why=None, truth=None, nul=False):
    return _V(k, f, ex, tag, items, why, truth, nul)


UNKNOWN = V("unknown")
NUM = V("num")
NONE = V("none", truth=False)
STR = V("str")


def vec(f="?", ex=frozenset(), tag=None, why=None):
    return V("vec", f, ex, tag, None, why)


def is_vec(v):
    return v.k == "vec"


ABS = ("U", "A")


def compat(f1, f2):
    """May two vector frames denote positions in the same coordinate system?"""
    if f1 == "?" or f2 == "?" or f1 is None or f2 is None:
        return True
    return f1 == f2


def join(a, b):
    if a is None:
        return b
    if b is None:
        return a
    if a == b:
        return a
    if a.k == "none":
        return b._replace(truth=None, nul=True)
    if b.k == "none":
        return a._replace(truth=None, nul=True)
    if a.nul != b.nul:
        a = a._replace(nul=True)
        b = b._replace(nul=True)
        if a == b:
            return a
    if a.k != b.k:
        if {a.k, b.k} == {"vec", "num"}:
            return a if a.k == "vec" else b
        if "unknown" in (a.k, b.k):
            other = b if a.k == "unknown" else a
            if other.k == "vec":
                return other._replace(ex=frozenset(), why=other.why or "joined with an unknown value")
            return UNKNOWN
        return UNKNOWN
    if a.k == "vec":
        if a.f == b.f:
            f = a.f
        elif a.f == "?":
            f = b.f
        elif b.f == "?":
            f = a.f
        else:
            f = "X"   # conflicting frames on different paths
        ex = a.ex & b.ex
        why = a.why or b.why
        if ex != a.ex and not why:
            why = "paths with different clamps joined"
        return V("vec", f, ex, a.tag if a.tag == b.tag else None, None, why, None, a.nul or b.nul)
    if a.k == "tuple" and a.items is not None and b.items is not None and len(a.items) == len(b.items):
        return V("tuple", items=tuple(join(x, y) for x, y in zip(a.items, b.items)))
    if a.k == "list":
        if a.items is not None and b.items is not None and len(a.items) == len(b.items):
            return V("list", items=tuple(join(x, y) for x, y in zip(a.items, b.items)), truth=a.truth if a.truth == b.truth else None)
        return V("list", items=None, truth=a.truth if a.truth == b.truth else None)
    if a.k == "obj":
        return a if a.tag == b.tag else UNKNOWN
    if a.k in ("closure", "user"):
        return a if a.tag == b.tag else V(a.k, tag=None)
    return a._replace(truth=None, tag=None) if a.k == b.k else UNKNOWN


def join_env(e1, e2):
    if e1 is None:
        return e2
    if e2 is None:
        return e1
    out = {}
    for k in set(e1) | set(e2):
        if k in e1 and k in e2:
            out[k] = join(e1[k], e2[k])
        else:
            out[k] = e1.get(k) or e2.get(k)
    return out


class Config(object):
    def __init__(self, scaling, proj, h, bounds="both"):
        self.scaling, self.proj, self.h, self.bounds = scaling, proj, h, bounds     # bounds: both | lower-only | upper-only | none

    def __repr__(self):
        return "scaling=%s,projections=%s,h=%s%s" % (self.scaling, self.proj, self.h, "" if self.bounds == "both" else ",bounds=" + self.bounds)


class Issue(object):
    def __init__(self, kind, fi, node, msg, key):
        self.kind, self.fi, self.node, self.msg, self.key = kind, fi, node, msg, key


class _Return(Exception):
    pass


class Interp(object):
    MAXDEPTH = 14

    def __init__(self, eng, config):
        self.eng = eng
        self.prog = eng.prog
        self.res = eng.res
        self.cfgc = config
        self.fields = {}
        self.fields_changed = False
        self.memo = {}
        self.issues = {}          # (kind, id(node)) -> Issue
        self.sites = {}           # (kind, id(node)) -> (fi, node)   every constraint site evaluated
        self.sink_obs = []        # (sink kind, fi, node, V)
        self.sink_stacks = []     # call stack (fids) of each sink observation, same index
        self.depth = 0
        self.closures = {}        # closure tag -> (fi, env)
        self.stack = []

    # ------------------------------------------------------------------ driver
    def run(self):
        solve = self.prog.fn("solver.solve")
        for rnd in range(6):
            self.fields_changed = False
            self.memo = {}
            self.issues = {}
            self.sites = {}
            self.sink_obs = []
            self.sink_stacks = []
            args = self.solve_args(solve)
            self.call_function(solve, args, None)
            if not self.fields_changed:
                break
        else:
            raise AnalysisError("frame analysis: field table did not stabilise (%r)" % self.cfgc)
        self.rounds = rnd + 1
        return self

    def solve_args(self, solve):
        c = self.cfgc
        a = {}
        for p in solve.all_params:
            a[p] = NUM
        a["objfun"] = V("user", tag="objfun")
        a["x0"] = vec("U", tag="user.x0")
        a["h"] = V("user", tag="h", truth=True) if c.h else NONE
        a["lh"] = NUM if c.h else NONE
        a["prox_uh"] = V("user", tag="prox_uh", truth=True) if c.h else NONE
        a["argsf"] = a["argsh"] = a["argsprox"] = V("tuple", items=None)
        lo = vec("U", tag="user.xl") if c.bounds in ("both", "lower-only") else NONE
        up = vec("U", tag="user.xu") if c.bounds in ("both", "upper-only") else NONE
        a["bounds"] = NONE if c.bounds == "none" else V("tuple", items=(lo, up), truth=True)
        a["projections"] = V("list", items=(V("user", tag="proj"),), truth=True) if c.proj else V("list", items=(), truth=False)
        a["npt"] = a["rhobeg"] = a["maxfun"] = NONE
        a["nsamples"] = NONE
        a["user_params"] = NONE
        a["scaling_within_bounds"] = V("bool", truth=bool(c.scaling))
        a["objfun_has_noise"] = V("bool", truth=None)
        a["do_logging"] = V("bool", truth=None)
        a["print_progress"] = V("bool", truth=None)
        return a

    # ------------------------------------------------------------------ issues / sites
    def site(self, kind, fi, node):
        self.sites[(kind, id(node))] = (fi, node)

    def issue(self, kind, fi, node, msg, key):
        self.issues.setdefault((kind, id(node)), Issue(kind, fi, node, msg, key))

    # ------------------------------------------------------------------ functions
    def call_function(self, fi, args, closure_env):
        ck = 0
        if closure_env is not None:
            try:
                ck = hash(tuple(sorted((k, v) for k, v in closure_env.items() if _hashable(v))))
            except TypeError:
                ck = id(closure_env)
        key = (fi.fid, tuple(sorted((k, v) for k, v in args.items())), ck, any(f.startswith("model.Model.") for f in self.stack))
        if key in self.memo:
            return self.memo[key]
        if self.depth > self.MAXDEPTH or fi.fid in self.stack:
            return UNKNOWN
        self.memo[key] = UNKNOWN
        self.depth += 1
        self.stack.append(fi.fid)
        env = dict(closure_env) if closure_env is not None else {}
        env.update(args)
        frame = {"fi": fi, "rets": [], "cell": {}}
        try:
            if fi.is_lambda:
                r = self.ev(frame, env, fi.node.body)
                frame["rets"].append(r)
            else:
                self.block(frame, env, fi.node.body)
        finally:
            self.depth -= 1
            self.stack.pop()
        out = None
        for r in frame["rets"]:
            out = join(out, r)
        if out is None:
            out = NONE
        self.memo[key] = out
        return out

    # ------------------------------------------------------------------ statements
    def block(self, frame, env, stmts):
        """Execute statements; returns env or None when the block cannot fall through."""
        for st in stmts:
            if env is None:
                return None
            env = self.stmt(frame, env, st)
        return env

    def truth(self, frame, env, test):
        """Three-valued truth of a test under the configuration: True / False / None."""
        if isinstance(test, ast.UnaryOp) and isinstance(test.op, ast.Not):
            t = self.truth(frame, env, test.operand)
            return None if t is None else (not t)
        if isinstance(test, ast.BoolOp):
            vals = [self.truth(frame, env, v) for v in test.values]
            if isinstance(test.op, ast.And):
                if any(v is False for v in vals):
                    return False
                return True if all(v is True for v in vals) else None
            if any(v is True for v in vals):
                return True
            return False if all(v is False for v in vals) else None
        if isinstance(test, ast.Compare) and len(test.ops) == 1 and is_none(test.comparators[0]) and isinstance(test.ops[0], (ast.Is, ast.IsNot)):
            v = self.ev(frame, env, test.left)
            if v.nul:
                return None
            if v.k == "none":
                r = True
            elif v.k == "unknown" or (v.truth is None and v.k in ("bool",)):
                return None
            elif v.k in ("vec", "num", "tuple", "list", "obj", "closure", "user", "str", "mask"):
                r = False if v.truth is not None or v.k in ("vec", "obj", "user", "closure", "tuple", "list", "str") else None
                if v.k == "num":
                    return None
            else:
                return None
            if r is None:
                return None
            return r if isinstance(test.ops[0], ast.Is) else (not r)
        if isinstance(test, ast.Compare) and len(test.ops) == 1 and isinstance(test.left, ast.Call) and isinstance(test.left.func, ast.Name) and test.left.func.id == "len" \
                and len(test.left.args) == 1 and isinstance(test.comparators[0], ast.Constant) and isinstance(test.comparators[0].value, int):
            # `len(bounds) != 2` under a configuration whose `bounds` is a known pair
            lv = self.ev(frame, env, test.left.args[0])
            if lv.k in ("tuple", "list") and lv.items is not None and not lv.nul:
                a, b = len(lv.items), test.comparators[0].value
                op = test.ops[0]
                r = a == b if isinstance(op, ast.Eq) else a != b if isinstance(op, ast.NotEq) else a < b if isinstance(op, ast.Lt) else a <= b if isinstance(op, ast.LtE) \
                    else a > b if isinstance(op, ast.Gt) else a >= b if isinstance(op, ast.GtE) else None
                if r is not None:
                    return r
        v = self.ev(frame, env, test)
        if v.nul:
            return None if v.truth is not False else False
        if v.k == "none":
            return False
        if v.k in ("bool", "list", "user", "tuple") and v.truth is not None:
            return v.truth
        if v.k in ("user", "closure", "obj"):
            return True
        return None

    def stmt(self, frame, env, st):
        fi = frame["fi"]
        if isinstance(st, ast.Assign):
            v = self.ev(frame, env, st.value)
            env = dict(env)
            for t in st.targets:
                self.assign(frame, env, t, v, st)
            return env
        if isinstance(st, ast.AugAssign):
            cur = self.ev(frame, env, st.target)
            rhs = self.ev(frame, env, st.value)
            v = self.binop(frame, st, st.op, cur, rhs, st.target, st.value)
            env = dict(env)
            self.assign(frame, env, st.target, v, st)
            return env
        if isinstance(st, ast.AnnAssign):
            if st.value is not None:
                env = dict(env)
                self.assign(frame, env, st.target, self.ev(frame, env, st.value), st)
            return env
        if isinstance(st, ast.Expr):
            self.ev(frame, env, st.value, stmt_env=env)
            return frame.pop("_env_after", env)
        if isinstance(st, ast.Return):
            frame["rets"].append(self.ev(frame, env, st.value) if st.value is not None else NONE)
            return None
        if isinstance(st, ast.Raise):
            return None
        if isinstance(st, ast.If):
            t = self.truth(frame, env, st.test)
            e1 = self.block(frame, env, st.body) if t is not False else None
            e2 = self.block(frame, env, st.orelse) if t is not True else None
            if t is True:
                return e1
            if t is False:
                return e2
            return join_env(e1, e2)
        if isinstance(st, (ast.For, ast.While)):
            return self.loop(frame, env, st)
        if isinstance(st, ast.Try):
            e1 = self.block(frame, env, st.body)
            out = self.block(frame, e1, st.orelse) if e1 is not None else None
            for h in st.handlers:
                out = join_env(out, self.block(frame, env, h.body))
            return out
        if isinstance(st, ast.With):
            return self.block(frame, env, st.body)
        if isinstance(st, ast.Break):
            frame.setdefault("breaks", []).append(env)
            return None
        if isinstance(st, ast.Continue):
            frame.setdefault("conts", []).append(env)
            return None
        if isinstance(st, ast.FunctionDef):
            env = dict(env)
            sub = self.res.def_fi.get(id(st))
            tag = sub.fid
            self.closures[tag] = (sub, _LateEnv(env, frame.get("cell")))
            env[st.name] = V("closure", tag=tag)
            return env
        return env   # Assert, Pass, Import, Delete, Global ...

    def loop(self, frame, env, st):
        fi = frame["fi"]
        saved_b, saved_c = frame.get("breaks"), frame.get("conts")
        out_env = None
        cur = env
        if isinstance(st, ast.For):
            it = self.ev(frame, env, st.iter)
        for _ in range(4):
            frame["breaks"], frame["conts"] = [], []
            body_env = dict(cur)
            if isinstance(st, ast.For):
                elem = NUM
                if it.k == "list" and it.items:
                    elem = None
                    for x in it.items:
                        elem = join(elem, x)
                elif it.k == "vec":
                    elem = it
                elif it.k in ("unknown",):
                    elem = UNKNOWN
                self.assign(frame, body_env, st.target, elem, st)
                t = None
            else:
                t = self.truth(frame, body_env, st.test)
            e = self.block(frame, body_env, st.body) if t is not False else None
            for c in frame["conts"]:
                e = join_env(e, c)
            brk = None
            for b in frame["breaks"]:
                brk = join_env(brk, b)
            nxt = join_env(cur, e)
            infinite = isinstance(st, ast.While) and t is True
            exit_env = brk if infinite else join_env(join_env(cur, e), brk)
            out_env = exit_env
            if nxt == cur:
                break
            cur = nxt
        frame["breaks"], frame["conts"] = saved_b, saved_c
        if out_env is not None and st.orelse:
            out_env = self.block(frame, out_env, st.orelse)
        return out_env

    def assign(self, frame, env, target, v, st):
        fi = frame["fi"]
        if isinstance(target, ast.Name):
            env[target.id] = v
            if "cell" in frame:
                frame["cell"][target.id] = v      # latest binding of the variable in this activation (closures are late-binding)
        elif isinstance(target, (ast.Tuple, ast.List)):
            n = len(target.elts)
            for i, t in enumerate(target.elts):
                if v.k == "tuple" and v.items is not None and len(v.items) == n:
                    self.assign(frame, env, t, v.items[i], st)
                else:
                    self.assign(frame, env, t, UNKNOWN, st)
        elif isinstance(target, ast.Attribute):
            base = self.ev(frame, env, target.value)
            if base.k == "obj":
                self.set_field(base.tag, target.attr, v)
        elif isinstance(target, ast.Subscript):
            base = self.ev(frame, env, target.value)
            idx = self.ev(frame, env, target.slice)
            newbase = self.store_elem(frame, base, idx, v, target, st)
            if newbase is not None:
                self.assign(frame, env, target.value, newbase, st)
        elif isinstance(target, ast.Starred):
            self.assign(frame, env, target.value, UNKNOWN, st)

    def store_elem(self, frame, base, idx, v, target, st):
        """x[idx] = v : returns the new abstract value of x (or None to leave it)."""
        fi = frame["fi"]
        if base.k == "vec":
            # the clamp-by-mask idiom:  idx = (x < L) ; x[idx] = L[idx]
            if idx.k == "mask" and idx.items is not None:
                op, xtag, bound = idx.items
                if is_vec(v) and bound is not None and v == bound and base.tag == xtag:
                    self.site("clamp", fi, st)
                    if not compat(base.f, bound.f):
                        self.issue("clamp", fi, st, "mask-clamp of a %s vector against a %s bound" % (base.f, bound.f), "%s|mask-clamp-frames|%s" % (fi.fid, ekey(target.value)))
                    if bound.tag is None or bound.tag in ("fresh", "probe"):
                        return base   # x = max(x, L) / min(x, U) with an anonymous bound: existing facts survive (bounds are consistent)
                    fact = ("lo", bound.tag) if op == "lt" else ("hi", bound.tag)
                    return base._replace(ex=base.ex | {fact}, why=None if len(base.ex | {fact}) >= 2 else base.why)
            if is_vec(v):
                f = base.f if base.f != "?" else v.f
                if base.f not in ("?", v.f) and v.f != "?":
                    f = "X"
                ex = base.ex & v.ex if base.tag != "fresh" else v.ex
                why = base.why or v.why
                if base.ex and not ex and not why:
                    why = "%s: element store `%s`" % (fi.fid, ekey(st)[:50])
                return V("vec", f, ex, base.tag, None, why)
            if v.k == "num" and base.ex:
                return base._replace(ex=frozenset(), why="%s: element store `%s`" % (fi.fid, ekey(st)[:50]))
            return None
        if base.k == "list":
            return V("list", items=None, truth=True)
        return None

    def set_field(self, cls, attr, v):
        old = self.fields.get((cls, attr))
        new = join(old, v)
        if new != old:
            self.fields[(cls, attr)] = new
            self.fields_changed = True

    # ------------------------------------------------------------------ expressions
    def ev(self, frame, env, node, stmt_env=None):
        fi = frame["fi"]
        if node is None:
            return NONE
        if isinstance(node, ast.Constant):
            if node.value is None:
                return NONE
            if isinstance(node.value, bool):
                return V("bool", truth=node.value)
            if isinstance(node.value, str):
                return STR
            return NUM
        if isinstance(node, ast.Name):
            if node.id in env:
                return env[node.id]
            r = self.res.module_symbol(fi.module, node.id)
            if r is not None and r[0] == "fn":
                return V("closure", tag=r[1].fid)
            if r is not None and r[0] == "cls":
                return V("cls", tag=r[1].name)
            if r is not None and r[0] == "glob":
                return NUM if const_value(self.prog.modules[r[1]].globals[r[2]]) is not None else UNKNOWN
            return UNKNOWN
        if isinstance(node, ast.Attribute):
            base = self.ev(frame, env, node.value)
            if base.k == "obj":
                ci = self.prog.classes.get(base.tag)
                if ci is not None and node.attr in ci.methods and (base.tag, node.attr) not in self.res.stored_fields:
                    return V("bound", tag=ci.methods[node.attr].fid, items=(base,))
                v = self.fields.get((base.tag, node.attr))
                if v is None:
                    return UNKNOWN
                if is_vec(v) and v.tag is None:
                    v = v._replace(tag="%s.%s" % (base.tag, node.attr))
                return v
            if is_vec(base):
                if node.attr == "T":
                    return base
                return NUM if node.attr in ("shape", "size", "ndim", "dtype") else UNKNOWN
            return UNKNOWN
        if isinstance(node, ast.Tuple):
            return V("tuple", items=tuple(self.ev(frame, env, e) for e in node.elts), truth=bool(node.elts))
        if isinstance(node, ast.List):
            return V("list", items=tuple(self.ev(frame, env, e) for e in node.elts), truth=bool(node.elts))
        if isinstance(node, ast.Subscript):
            base = self.ev(frame, env, node.value)
            idx = self.ev(frame, env, node.slice)
            if base.k == "vec":
                return base._replace(tag=base.tag)
            if base.k in ("tuple", "list") and base.items is not None:
                c = const_value(node.slice)
                if isinstance(c, int) and -len(base.items) <= c < len(base.items):
                    return base.items[c]
                if isinstance(node.slice, ast.Slice):
                    return base
                out = None
                for x in base.items:
                    out = join(out, x)
                return out or UNKNOWN
            return UNKNOWN
        if isinstance(node, ast.Slice):
            return NUM
        if isinstance(node, ast.BinOp):
            l = self.ev(frame, env, node.left)
            r = self.ev(frame, env, node.right)
            return self.binop(frame, node, node.op, l, r, node.left, node.right)
        if isinstance(node, ast.UnaryOp):
            v = self.ev(frame, env, node.operand)
            if isinstance(node.op, ast.Not):
                t = self.truth(frame, env, node)
                return V("bool", truth=t)
            if is_vec(v):
                return v._replace(ex=frozenset(), tag=None, why=v.why or ("%s: `%s`" % (fi.fid, ekey(node)[:50]) if v.ex else None))
            return v
        if isinstance(node, ast.BoolOp):
            t = self.truth(frame, env, node)
            vals = [self.ev(frame, env, v) for v in node.values]
            return V("bool", truth=t)
        if isinstance(node, ast.Compare):
            l = self.ev(frame, env, node.left)
            rs = [self.ev(frame, env, c) for c in node.comparators]
            if len(node.ops) == 1 and is_vec(l) and is_vec(rs[0]) and isinstance(node.ops[0], (ast.Lt, ast.Gt)):
                return V("mask", items=("lt" if isinstance(node.ops[0], ast.Lt) else "gt", l.tag, rs[0]))
            return V("bool", truth=self.truth(frame, env, node) if len(node.ops) == 1 and is_none(node.comparators[0]) else None)
        if isinstance(node, ast.IfExp):
            t = self.truth(frame, env, node.test)
            if t is True:
                return self.ev(frame, env, node.body)
            if t is False:
                return self.ev(frame, env, node.orelse)
            return join(self.ev(frame, env, node.body), self.ev(frame, env, node.orelse))
        if isinstance(node, ast.Lambda):
            sub = self.res.lambda_fi[id(node)]
            tag = "%s@%d" % (sub.fid, len(self.closures))
            # one closure per creation environment (keyed by content so that memoisation stays finite)
            key = (sub.fid, tuple(sorted((k, v) for k, v in env.items() if _hashable(v))))
            tag = "%s#%d" % (sub.fid, abs(hash(key)) % 100000)
            self.closures[tag] = (sub, _LateEnv(dict(env), frame.get("cell")))
            return V("closure", tag=tag)
        if isinstance(node, ast.Call):
            return self.call(frame, env, node)
        if isinstance(node, ast.Starred):
            return self.ev(frame, env, node.value)
        if isinstance(node, (ast.ListComp, ast.GeneratorExp, ast.SetComp, ast.DictComp, ast.JoinedStr, ast.Dict)):
            return UNKNOWN
        return UNKNOWN

    def binop(self, frame, node, op, l, r, lnode, rnode):
        fi = frame["fi"]
        if not (is_vec(l) or is_vec(r)):
            if l.k in ("unknown",) or r.k in ("unknown",):
                return UNKNOWN
            if isinstance(op, ast.Mod) and l.k == "str":
                return STR
            if isinstance(op, ast.Add) and l.k == "list" and r.k == "list":
                if l.items is not None and r.items is not None:
                    return V("list", items=l.items + r.items, truth=bool(l.items + r.items))
                return V("list", items=None)
            if isinstance(op, ast.Mult) and "list" in (l.k, r.k):
                return V("list", items=None)
            return NUM
        lost = None
        for x in (l, r):
            if is_vec(x) and x.ex:
                lost = "%s: `%s`" % (fi.fid, ekey(node)[:60].replace("\n", " "))
        why = lost or (l.why if is_vec(l) else None) or (r.why if is_vec(r) else None) or \
            "%s: `%s` (never clamped)" % (fi.fid, ekey(node)[:60].replace("\n", " "))
        if isinstance(op, (ast.Add, ast.Sub)):
            if is_vec(l) and is_vec(r):
                f = self.addsub(frame, node, op, l, r, lnode, rnode)
                return vec(f, why=why)
            v = l if is_vec(l) else r
            o = r if is_vec(l) else l
            if o.k == "unknown":
                return vec("?", why=why)
            return vec(v.f, why=why)
        if isinstance(op, (ast.Mult, ast.Div, ast.Pow, ast.FloorDiv, ast.Mod)):
            if is_vec(l) and is_vec(r):
                # elementwise scaling (x * scale, (x - shift) / scale): the frame changes in a way only the scaling helpers may do
                return vec("?", why=why)
            v = l if is_vec(l) else r
            return vec(v.f if v.f == "R" else "?", why=why)
        if isinstance(op, ast.MatMult):
            return vec("?", why=why)
        return vec("?", why=why)

    def addsub(self, frame, node, op, l, r, lnode, rnode):
        fi = frame["fi"]
        a, b = l.f, r.f
        self.site("arith", fi, node)
        if a == "X" or b == "X":
            return "X"
        if a == "?" or b == "?":
            if a in ABS and isinstance(op, ast.Add):
                return a
            if b in ABS and isinstance(op, ast.Add):
                return b
            if a in ABS and isinstance(op, ast.Sub):
                return "?"   # P - ? could be P or R
            return "?" if "?" in (a, b) and (a == "?" and b == "?") else ("R" if "R" in (a, b) and not (a in ABS or b in ABS) else "?")
        if isinstance(op, ast.Add):
            if a in ABS and b == "R":
                return a
            if a == "R" and b in ABS:
                return b
            if a == "R" and b == "R":
                return "R"
            self.issue("arith", fi, node, "sum of two absolute positions / of vectors in different coordinate systems: %s(%s) + %s(%s)" % (ekey(lnode)[:30], a, ekey(rnode)[:30], b),
                       "%s|frame-mismatch|%s" % (fi.fid, ekey(node)[:50]))
            return "X"
        # Sub
        if a in ABS and b == "R":
            return a
        if a == b:
            return "R"
        if a == "R" and b in ABS:
            self.issue("arith", fi, node, "relative vector minus absolute position: %s(%s) - %s(%s)" % (ekey(lnode)[:30], a, ekey(rnode)[:30], b),
                       "%s|frame-mismatch|%s" % (fi.fid, ekey(node)[:50]))
            return "X"
        self.issue("arith", fi, node, "difference of positions in different coordinate systems: %s(%s) - %s(%s)" % (ekey(lnode)[:30], a, ekey(rnode)[:30], b),
                   "%s|frame-mismatch|%s" % (fi.fid, ekey(node)[:50]))
        return "X"

    # ------------------------------------------------------------------ calls
    def call(self, frame, env, node):
        fi = frame["fi"]
        ci = self.res.calls.get(id(node))
        f = node.func
        args = [self.ev(frame, env, a) for a in node.args]
        kwargs = dict((kw.arg, self.ev(frame, env, kw.value)) for kw in node.keywords if kw.arg)
        fv = None
        recv = None
        if isinstance(f, ast.Attribute):
            recv = self.ev(frame, env, f.value)
            if recv.k == "obj":
                fv = self.ev(frame, env, f)
        else:
            fv = self.ev(frame, env, f)
        # --- package callables
        if fv is not None and fv.k == "cls":
            cls = self.prog.classes[fv.tag]
            if cls.name == "OptimResults" and args and is_vec(args[0]):
                self.sink_obs.append(("soln.x", fi, node, args[0]))
            obj = V("obj", tag=cls.name)
            init = cls.methods.get("__init__")
            if init is not None:
                self.invoke(frame, node, init, [obj] + args, kwargs, None)
            return obj
        if fv is not None and fv.k == "bound":
            t = self.prog.functions[fv.tag]
            return self.invoke(frame, node, t, [fv.items[0]] + args, kwargs, None)
        if fv is not None and fv.k == "obj":
            cls = self.prog.classes.get(fv.tag)
            if cls is not None and "__call__" in cls.methods:
                return NUM if fv.tag == "ParameterList" else self.invoke(frame, node, cls.methods["__call__"], [fv] + args, kwargs, None)
        if fv is not None and fv.k == "closure" and fv.tag is not None:
            if fv.tag in self.closures:
                sub, cenv = self.closures[fv.tag]
                return self.special(frame, node, sub, args, kwargs) or self.invoke(frame, node, sub, args, kwargs, cenv.now())
            t = self.prog.functions.get(fv.tag)
            if t is not None:
                sp = self.special(frame, node, t, args, kwargs)
                if sp is not None:
                    return sp
                return self.invoke(frame, node, t, args, kwargs, None)
        if fv is not None and fv.k == "user":
            return self.user_call(frame, node, fv, args, kwargs)
        if fv is not None and fv.k == "list":
            return UNKNOWN
        # calling an element of a projector list etc.
        if fv is not None and fv.k == "unknown" and ci is not None and ci.targets and isinstance(f, ast.Name):
            pass
        # --- library / builtin / methods
        return self.libcall(frame, env, node, ci, recv, args, kwargs)

    def invoke(self, frame, node, t, args, kwargs, cenv):
        """Bind abstract arguments to t's parameters and analyse t in that context."""
        pos = list(t.posparams)
        bound = {}
        i = 0
        for a, an in zip(args, [None] * len(args)):
            if i < len(pos):
                bound[pos[i]] = a
                i += 1
        for k, v in kwargs.items():
            if k in pos or k in t.kwonly:
                bound[k] = v
        for p in pos + list(t.kwonly):
            if p not in bound:
                if p in t.defaults:
                    d = t.defaults[p]
                    bound[p] = NONE if is_none(d) else (V("tuple", items=()) if isinstance(d, ast.Tuple) and not d.elts else
                                                      (V("bool", truth=d.value) if isinstance(d, ast.Constant) and isinstance(d.value, bool) else NUM))
                else:
                    bound[p] = UNKNOWN
        if t.vararg:
            bound[t.vararg] = V("tuple", items=None)
        return self.call_function(t, bound, cenv)

    def user_call(self, frame, node, fv, args, kwargs):
        fi = frame["fi"]
        role = fv.tag
        if role in ("objfun", "h", "prox_uh"):
            self.site("callback-frame", fi, node)
            x = args[0] if args else UNKNOWN
            if is_vec(x):
                if x.f not in ("U", "?"):
                    self.issue("callback-frame", fi, node,
                               "user callback %s is evaluated at a point in frame %s (internal coordinates), not in user coordinates" % (role, x.f),
                               "%s|callback-not-in-user-frame|%s" % (fi.fid, role))
                self.sink_obs.append((role, fi, node, x))
                self.sink_stacks.append(tuple(self.stack))
            if role == "prox_uh":
                return vec("U")
            if role == "objfun":
                return vec("?")
            return NUM
        if role == "proj":
            x = args[0] if args else UNKNOWN
            return vec(x.f if is_vec(x) else "?", ex=frozenset([("in", "user-set")]))
        if role == "nsamples":
            return NUM
        return UNKNOWN

    def special(self, frame, node, t, args, kwargs):
        """Summaries that replace the analysis of a package function (each justified by a separate structural rule)."""
        fi = frame["fi"]
        if t.fid == "util.dykstra":
            # C15-2 (checked on dykstra's own body): the result is the output of the last projector
            P = args[0] if args else kwargs.get("P", UNKNOWN)
            x = args[1] if len(args) > 1 else kwargs.get("x0", UNKNOWN)
            self.site("dykstra-frames", fi, node)
            res = vec(x.f if is_vec(x) else "?")
            if P.k == "list" and P.items is not None and P.items:
                last = None
                for p in P.items:
                    out = self.apply_projector(frame, node, p, x)
                    last = out
                    if is_vec(out) and is_vec(x) and not compat(out.f, x.f):
                        pass
                if last is not None and is_vec(last):
                    res = vec(x.f if is_vec(x) else last.f, ex=last.ex, why=last.why)
            else:
                res = res._replace(why="%s: dykstra over a projector list of unknown content" % fi.fid)
            return res
        if t.fid == "util.apply_scaling" or t.fid == "util.remove_scaling":
            x = args[0] if args else UNKNOWN
            sc = args[1] if len(args) > 1 else kwargs.get("scaling_changes", UNKNOWN)
            self.site("scaling", fi, node)
            if sc.k == "none":
                return x
            if not is_vec(x):
                return x
            frm, to = ("U", "A") if t.fid.endswith("apply_scaling") else ("A", "U")
            if x.f not in (frm, "?"):
                self.issue("scaling", fi, node, "%s applied to a vector in frame %s (expects %s): scaling %s" % (t.qualname, x.f, frm,
                           "applied twice" if x.f == to else "of a relative vector"), "%s|scaling-misapplied|%s" % (fi.fid, t.qualname))
            why = x.why
            if x.ex:
                why = "util.%s: `%s`" % (t.qualname, "(x_raw - shift) / scale" if frm == "U" else "shift + x_scaled * scale")
            tag = "scaled(%s)" % x.tag if (x.tag and frm == "U") else None
            return vec(to, tag=tag, why=why)
        return None

    def apply_projector(self, frame, node, p, x):
        fi = frame["fi"]
        if p.k == "user":
            return vec(x.f if is_vec(x) else "?", ex=frozenset([("in", "user-set")]))
        if p.k == "closure" and p.tag in self.closures:
            sub, cenv = self.closures[p.tag]
            cenv = cenv.now()
            # the projector's own frame: analyse its body on an argument of unknown frame and see which bounds it clamps with
            probe = self.invoke(frame, node, sub, [vec("?", tag="probe")], {}, cenv)
            pf = probe.f if is_vec(probe) else "?"
            if is_vec(x) and pf not in ("?", "X") and not compat(pf, x.f):
                self.issue("dykstra-frames", fi, node,
                           "projector `%s` acts in frame %s but is applied to a point in frame %s (relative bounds used on an absolute point or vice versa)"
                           % (_lambda_text(sub), pf, x.f), "%s|projector-frame|%s" % (sub.parent.fid if sub.parent else sub.fid, _lambda_text(sub)[:50]))
            return self.invoke(frame, node, sub, [x], {}, cenv)
        if p.k == "obj":
            # a small callable class (closure turned into an object): its __call__ is the projector
            cls = self.prog.classes.get(p.tag)
            callm = cls.methods.get("__call__") if cls is not None else None
            if callm is not None:
                probe = self.invoke(frame, node, callm, [p, vec("?", tag="probe")], {}, None)
                pf = probe.f if is_vec(probe) else "?"
                if is_vec(x) and pf not in ("?", "X") and not compat(pf, x.f):
                    self.issue("dykstra-frames", fi, node,
                               "projector `%s.__call__` acts in frame %s but is applied to a point in frame %s (relative bounds used on an absolute point or vice versa)"
                               % (p.tag, pf, x.f), "%s|projector-frame|%s" % (callm.fid, p.tag))
                return self.invoke(frame, node, callm, [p, x], {}, None)
        return vec(x.f if is_vec(x) else "?")

    def libcall(self, frame, env, node, ci, recv, args, kwargs):
        fi = frame["fi"]
        name = ci.libname if ci is not None else None
        kind = ci.kind if ci is not None else "UNKNOWN"
        f = node.func
        if kind == "METHOD":
            if name in ("copy", "astype", "flatten", "ravel", "squeeze"):
                return recv
            if name == "reshape":
                return recv._replace(tag=recv.tag) if is_vec(recv) else recv
            if name in ("append", "insert", "extend") and recv is not None and recv.k == "list":
                # mutate the list variable in the environment
                newv = V("list", items=None, truth=True)
                if recv.items is not None and args:
                    if name == "append":
                        newv = V("list", items=recv.items + (args[-1],), truth=True)
                    elif name == "insert":
                        newv = V("list", items=(args[-1],) + recv.items if const_value(node.args[0]) == 0 else None, truth=True)
                if isinstance(f.value, ast.Name):
                    e2 = dict(env)
                    e2[f.value.id] = newv
                    frame["_env_after"] = e2
                elif isinstance(f.value, ast.Attribute):
                    base = self.ev(frame, env, f.value.value)
                    if base.k == "obj":
                        self.fields[(base.tag, f.value.attr)] = newv
                return NONE
            if name in ("dot",):
                return UNKNOWN
            if name in ("items", "keys", "values"):
                return UNKNOWN
            if name in ("pop",):
                return UNKNOWN
            if name == "tolist":
                return UNKNOWN
            if is_vec(recv) and name in ("min", "max", "sum", "mean", "any", "all"):
                return NUM
            return UNKNOWN
        if kind == "BUILTIN":
            if name in ("len", "int", "float", "abs", "round", "sum", "range"):
                return NUM
            if name in ("max", "min"):
                return NUM if all(a.k in ("num", "bool") for a in args) else UNKNOWN
            if name in ("list", "tuple") and args:
                a = args[0]
                if a.k in ("list", "tuple"):
                    return V("list" if name == "list" else "tuple", items=a.items, truth=a.truth)
                return V(name, items=None)
            if name == "str":
                return STR
            if name == "isinstance":
                return V("bool")
            return UNKNOWN
        if kind == "LIB":
            short = name.split(".")[-1]
            if name in ("numpy.minimum", "numpy.maximum") and len(args) == 2:
                return self.minmax(frame, node, short, args[0], args[1])
            if name == "numpy.clip" and len(args) == 3:
                v = self.minmax(frame, node, "maximum", args[0], args[1])
                return self.minmax(frame, node, "minimum", v, args[2])
            if name in ("numpy.zeros", "numpy.ones", "numpy.empty", "numpy.zeros_like", "numpy.ones_like", "numpy.full", "numpy.eye"):
                return vec("?", tag="fresh")
            if name in ("numpy.array", "numpy.asarray", "numpy.copy", "numpy.atleast_1d") and args:
                return args[0] if is_vec(args[0]) else (vec("?") if args[0].k in ("list", "tuple") else args[0])
            if name in ("numpy.allclose", "numpy.any", "numpy.all", "numpy.isnan", "numpy.isfinite", "numpy.array_equal"):
                return V("bool")
            if name in ("numpy.linalg.norm", "numpy.max", "numpy.min", "numpy.sum", "numpy.sqrt", "numpy.abs", "numpy.dot", "numpy.size", "numpy.shape",
                        "numpy.argmin", "numpy.argmax", "numpy.nanargmin", "math.sqrt", "numpy.log", "numpy.mean", "numpy.linalg.cond", "math.ceil", "math.log"):
                if short in ("abs", "sqrt") and args and is_vec(args[0]):
                    return vec("?")
                if short == "dot":
                    return UNKNOWN
                if short == "mean" and args and is_vec(args[0]):
                    return vec("?")
                return NUM
            if name in ("numpy.where", "numpy.logical_or", "numpy.logical_and", "numpy.logical_not", "numpy.argsort", "numpy.arange"):
                return UNKNOWN
            if name == "numpy.append" and args:
                return args[0] if is_vec(args[0]) else UNKNOWN
            if name.startswith("numpy.random."):
                return vec("?")
            return UNKNOWN
        return UNKNOWN

    def minmax(self, frame, node, which, a, b):
        fi = frame["fi"]
        if not (is_vec(a) or is_vec(b)):
            return NUM if a.k == "num" and b.k == "num" else UNKNOWN
        self.site("clamp", fi, node)
        if is_vec(a) and is_vec(b):
            if not compat(a.f, b.f) and "X" not in (a.f, b.f):
                self.issue("clamp", fi, node, "clamp mixes coordinate systems: %s of a %s vector and a %s vector" % (which, a.f, b.f),
                           "%s|clamp-frames|%s" % (fi.fid, ekey(node)[:50]))
            f = a.f if a.f != "?" else b.f
            # which operand is the bound?  the one that carries a bound tag (a field / named bound vector); facts accumulate
            facts = a.ex | b.ex
            kind = "lo" if which == "maximum" else "hi"
            for x, other in ((a, b), (b, a)):
                if other.tag is not None and other.tag not in ("fresh", "probe"):
                    facts = facts | {(kind, other.tag)}
            return vec(f, ex=frozenset(facts), why=None)
        v = a if is_vec(a) else b
        return vec(v.f, ex=v.ex, why=v.why)


class _LateEnv(object):
    """Environment of a closure: the bindings at creation, overridden by the *latest* bindings of the defining activation
    (Python closures read their free variables when they are called, not when they are created)."""

    def __init__(self, created, cell):
        self.created, self.cell = created, cell

    def now(self):
        env = dict(self.created)
        if self.cell:
            env.update(self.cell)
        return env

    def items(self):
        return self.now().items()


def _hashable(v):
    try:
        hash(v)
        return True
    except TypeError:
        return False


def _lambda_text(sub):
    if sub.is_lambda:
        return ekey(sub.node)
    return sub.qualname


CONFIGS = [Config(s, p, h) for s in (False, True) for p in (False, True) for h in (False, True) if not (s and p)]
# one-sided / absent bounds ("with one-sided bounds" is a clause of C01): the quick tier runs the patterns below, the thorough tier the whole product
ONE_SIDED = [Config(s, p, h, bounds=b) for b in ("lower-only", "upper-only") for (s, p, h) in ((False, False, False), (False, True, False), (True, False, True))]
FULL_PRODUCT = [Config(s, p, h, bounds=b) for s in (False, True) for p in (False, True) for h in (False, True) for b in ("both", "lower-only", "upper-only", "none")]

_RUNS = {}


def analyse(eng, config):
    key = (id(eng), repr(config))
    if key not in _RUNS:
        _RUNS[key] = Interp(eng, config).run()
    return _RUNS[key]
