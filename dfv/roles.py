"""Role provenance (T4): 'what can flow into this sink?' decided on the value-flow graph.

A role R is given by
   sinks      VFG nodes that demand a value of role R
   producers  VFG nodes that *are* values of role R (derived from the repository by the caller)
The walk goes backwards from the sinks over plumbing edges (copy / tuple positions / container element /
selection / default).  A node is R-live if some backward path from it reaches a producer, R-dead otherwise.
A *blame edge* is an edge  dst <- src  with dst live (or a sink) and src dead and not neutral: the place where a
value that cannot be of role R enters plumbing that is otherwise fed with R.  Several roles are solved together:
edges blamed by one role are removed for all, and the solution is iterated to a fix-point, so that two crossed
arguments (each making the other's region look 'live') are both found.
"""
import ast

from .loader import ekey
from .norm import const_value, is_none
from .vfg import ALLOC_LIB

PLUMBING = ("copy", "proj", "tup", "index", "elem", "sel", "default")


class RoleSpec(object):
    def __init__(self, name, sinks, producers, neutral=None, follow_kinds=PLUMBING, stop=None, foreign=None):
        self.foreign = set(foreign or ())   # seeds (sinks/producers) of *other* roles: reaching one is a cross-role flow
        self.name = name
        self.sinks = list(sinks)
        self.producers = set(producers)
        self.neutral = neutral or (lambda vfg, key: False)
        self.follow_kinds = set(follow_kinds)
        self.stop = stop


def generic_neutral(vfg, key):
    """None, freshly allocated filler arrays and empty list literals carry no role."""
    if key[0] == "e":
        fi, node = vfg.info.get(key, (None, None))
        if node is None:
            return False
        if is_none(node):
            return True
        if isinstance(node, (ast.List, ast.Tuple)) and not node.elts:
            return True
        if isinstance(node, ast.Call):
            ci = vfg.res.calls.get(id(node))
            if ci is not None and ci.kind == "LIB" and ci.libname in ALLOC_LIB:
                return True
    return False


class Blame(object):
    def __init__(self, role, dst, src, kind, info, path):
        self.role, self.dst, self.src, self.kind, self.info, self.path = role, dst, src, kind, info, path


def solve_roles(vfg, specs, max_rounds=1):
    removed = set()     # (dst, src, kind, info) edges blamed so far
    blames = []
    stats = {}
    for rnd in range(max_rounds):
        new = []
        for spec in specs:
            def follow(src, kind, info, dst, spec=spec):
                if kind not in spec.follow_kinds:
                    return False
                if (dst, src, kind, info if _h(info) else None) in removed:
                    return False
                return True
            stop = (lambda n, spec=spec: n in spec.producers or n in spec.foreign or (spec.stop is not None and spec.stop(n)))
            w = vfg.back(spec.sinks, follow, stop=stop)
            # all followed edges among the visited nodes (node level, stack-insensitive)
            edges = {}
            for dst in w.nodes:
                if dst in w.boundary:
                    continue
                for (src, kind, info) in vfg.preds.get(dst, ()):
                    if src not in w.nodes:
                        continue
                    k2 = kind
                    if kind == "tup" and "tup" not in spec.follow_kinds:
                        continue
                    if kind != "tup" and not follow(src, kind, info, dst):
                        continue
                    if kind == "tup" and (dst, src, kind, info if _h(info) else None) in removed:
                        continue
                    edges.setdefault(dst, set()).add((src, kind, info if _h(info) else None))
            # liveness: reverse reachability from producers
            live = set(n for n in w.nodes if n in spec.producers and n not in spec.foreign)
            changed = True
            while changed:
                changed = False
                for dst, srcs in edges.items():
                    if dst in live:
                        continue
                    if any(s in live for (s, _k, _i) in srcs):
                        live.add(dst)
                        changed = True
            sinkset = set(spec.sinks)
            for dst, srcs in edges.items():
                if not (dst in live or dst in sinkset):
                    continue
                for (src, kind, info) in srcs:
                    if src in live:
                        continue
                    if src not in spec.foreign and _all_neutral(vfg, spec, src, edges):
                        continue
                    e = (dst, src, kind, info)
                    if e in removed:
                        continue
                    # descend through pure plumbing (names, definitions, tuple literals) to the value(s) that are wrong
                    work = [(dst, src, kind, info, 0)]
                    while work:
                        d2, s2, k2, i2, depth = work.pop()
                        fi_, node_ = vfg.node_expr(s2)
                        plumbing = s2[0] == "d" or isinstance(node_, (ast.Name, ast.Tuple, ast.Starred))
                        nxt = [(a, b, c) for (a, b, c) in edges.get(s2, ()) if a not in live and not (a not in spec.foreign and _all_neutral(vfg, spec, a, edges))]
                        if plumbing and nxt and depth < 12 and not any(a in spec.foreign for (a, b, c) in nxt):
                            for (a, b, c) in nxt:
                                work.append((s2, a, b, c, depth + 1))
                        else:
                            new.append(Blame(spec.name, d2, s2, k2, i2, w.path(s2)))
            stats[spec.name] = {"slice_nodes": len(w.nodes), "live": len(live), "producers_reached": len([n for n in w.nodes if n in spec.producers])}
        if not new:
            break
        for b in new:
            removed.add((b.dst, b.src, b.kind, b.info))
        blames += new
    return blames, stats


def _h(info):
    try:
        hash(info)
        return True
    except TypeError:
        return False


def _all_neutral(vfg, spec, node, edges, _seen=None):
    """A dead node is harmless if everything below it is neutral filler (None, zeros, empty list)."""
    _seen = _seen or set()
    if node in _seen:
        return True
    _seen.add(node)
    if generic_neutral(vfg, node) or spec.neutral(vfg, node):
        return True
    srcs = edges.get(node)
    if not srcs:
        return False
    return all(_all_neutral(vfg, spec, s, edges, _seen) for (s, _k, _i) in srcs)


def closure_back(vfg, starts, kinds=("copy", "incr", "default", "sel", "proj", "tup")):
    """Backward closure over value-preserving edges and counter increments (used to derive counter roles)."""
    w = vfg.back(starts, lambda s, k, i, d: k in kinds)
    return w


def blame_key(vfg, b):
    """Stable key of a blame edge: role, function and normalised text of the offending source, and the port it enters."""
    src = b.src
    fi, node = vfg.node_expr(src)
    where = fi.fid if fi is not None else _owner(src)
    txt = ekey(node)[:60] if node is not None else _short(src)
    return "%s|%s|%s->%s" % (b.role, where, txt, _short(b.dst))


def _owner(key):
    if key[0] in ("d", "p", "r"):
        return key[1]
    return "?"


def _short(key):
    if key[0] == "p":
        return "%s(%s)" % (key[1], key[2])
    if key[0] == "f":
        return "%s.%s" % (key[1], key[2])
    if key[0] == "d":
        return "%s:%s" % (key[1], key[2])
    if key[0] == "r":
        return "%s()" % key[1]
    if key[0] == "e":
        return "expr"
    return str(key)
