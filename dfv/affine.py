"""Affine normal forms (T7): vector expressions over +, -, integer scalars and named linear operators.

A form is a dict {(operator chain, symbol): integer coefficient}.  `apply(op, form)` prefixes every chain with op
(linearity).  Statements of a straight-line block (loops contribute one representative iteration) are executed
symbolically over a state {variable text -> form}; opaque calls produce fresh symbols.
"""
import ast

from .loader import AnalysisError, ekey
from .norm import const_value


def sym(name):
    return {((), name): 1}


def add(a, b, sign=1):
    out = dict(a)
    for k, v in b.items():
        out[k] = out.get(k, 0) + sign * v
        if out[k] == 0:
            del out[k]
    return out


def scale(a, c):
    return {k: v * c for k, v in a.items() if v * c != 0}


def apply(op, a):
    return {((op,) + k[0], k[1]): v for k, v in a.items()}


def fmt(a):
    if not a:
        return "0"
    parts = []
    for (chain, s), c in sorted(a.items(), key=str):
        t = "".join("%s." % o for o in chain) + s
        parts.append(("+" if c > 0 else "-") + ("" if abs(c) == 1 else str(abs(c)) + "*") + t)
    return " ".join(parts)


class SymExec(object):
    def __init__(self, linear_ops=None, copy_methods=("copy",)):
        self.state = {}
        self.fresh = 0
        self.linear_ops = linear_ops or {}      # text of first operand of np.dot -> operator name
        self.copy_methods = copy_methods
        self.calls = []

    def get(self, text):
        if text not in self.state:
            self.state[text] = sym(text)
        return self.state[text]

    def key(self, node):
        """State key of an lvalue/rvalue: subscripts of an array stand for one representative row."""
        if isinstance(node, ast.Subscript):
            return self.key(node.value) + "[*]"
        return ekey(node)

    def ev(self, node):
        if isinstance(node, (ast.Name, ast.Attribute, ast.Subscript)):
            return self.get(self.key(node))
        if isinstance(node, ast.BinOp) and isinstance(node.op, (ast.Add, ast.Sub)):
            return add(self.ev(node.left), self.ev(node.right), 1 if isinstance(node.op, ast.Add) else -1)
        if isinstance(node, ast.BinOp) and isinstance(node.op, ast.Mult):
            c = const_value(node.left)
            if isinstance(c, float) and c.is_integer():
                c = int(c)
            if isinstance(c, int) and not isinstance(c, bool):
                return scale(self.ev(node.right), c)
            c = const_value(node.right)
            if isinstance(c, float) and c.is_integer():
                c = int(c)
            if isinstance(c, int) and not isinstance(c, bool):
                return scale(self.ev(node.left), c)
        if isinstance(node, ast.UnaryOp) and isinstance(node.op, ast.USub):
            return scale(self.ev(node.operand), -1)
        if isinstance(node, ast.Call):
            f = node.func
            if isinstance(f, ast.Attribute) and f.attr in self.copy_methods and not node.args:
                return self.ev(f.value)
            if isinstance(f, ast.Attribute) and f.attr == "dot" and len(node.args) == 2 and ekey(node.args[0]) in self.linear_ops:
                return apply(self.linear_ops[ekey(node.args[0])], self.ev(node.args[1]))
            if isinstance(node.func, ast.Attribute) and f.attr == "dot" and len(node.args) == 1 and ekey(f.value) in self.linear_ops:
                return apply(self.linear_ops[ekey(f.value)], self.ev(node.args[0]))
            self.fresh += 1
            name = "call%d<%s>" % (self.fresh, ekey(node.func)[:20])
            self.calls.append((name, node, [self.ev(a) for a in node.args]))
            return sym(name)
        if isinstance(node, ast.BinOp) and isinstance(node.op, ast.MatMult) and ekey(node.left) in self.linear_ops:
            return apply(self.linear_ops[ekey(node.left)], self.ev(node.right))
        self.fresh += 1
        return sym("opaque%d<%s>" % (self.fresh, ekey(node)[:20]))

    def fork(self):
        import copy
        o = SymExec(self.linear_ops, self.copy_methods)
        o.state = dict(self.state)
        o.fresh = self.fresh
        o.calls = list(self.calls)
        return o

    def run_paths(self, stmts):
        """Every path through the `if` statements of a block (tests are not interpreted: both branches are followed; a `return` ends its path).
        Returns the list of SymExec objects, one per path, each with its final state.  Loops contribute one representative iteration."""
        live = [self]
        done = []
        for st in stmts:
            nxt = []
            for se in live:
                if isinstance(st, ast.If):
                    for branch in (st.body, st.orelse):
                        b = se.fork()
                        ended = False
                        subs = b.run_paths(branch)
                        for x in subs:
                            if getattr(x, "_returned", False):
                                done.append(x)
                            else:
                                nxt.append(x)
                elif isinstance(st, ast.Return):
                    se._returned = True
                    done.append(se)
                else:
                    se.run([st])
                    nxt.append(se)
            live = nxt
        return done + live

    def run(self, stmts):
        for st in stmts:
            if isinstance(st, ast.Assign) and len(st.targets) == 1:
                v = self.ev(st.value)
                self.state[self.key(st.targets[0])] = v
            elif isinstance(st, ast.AugAssign) and isinstance(st.op, (ast.Add, ast.Sub)):
                k = self.key(st.target)
                self.state[k] = add(self.get(k), self.ev(st.value), 1 if isinstance(st.op, ast.Add) else -1)
            elif isinstance(st, ast.For):
                self.run(st.body)
            elif isinstance(st, (ast.Return, ast.Pass, ast.Expr)):
                continue
            elif isinstance(st, (ast.If, ast.While, ast.Try, ast.With)):
                raise AnalysisError("affine: unsupported control flow `%s`" % ekey(st)[:40])
            else:
                continue
        return self.state
