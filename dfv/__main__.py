"""CLI:  python3-vt -m dfv check <Cxx> [--tier quick|thorough]   |   python3-vt -m dfv explain <violation.json>"""
import argparse
import importlib
import json
import os
import sys
import traceback


def main(argv=None):
    argv = list(sys.argv[1:] if argv is None else argv)
    if argv and argv[0] == "selftest":
        from .selftest.run import main as stmain
        return stmain(argv[1:])
    ap = argparse.ArgumentParser(prog="dfv")
    sub = ap.add_subparsers(dest="cmd")
    c = sub.add_parser("check")
    c.add_argument("pid")
    c.add_argument("--tier", default=os.environ.get("VERIF_TIER", "quick"))
    c.add_argument("--root", default=None)
    c.add_argument("--no-evidence", action="store_true")
    e = sub.add_parser("explain")
    e.add_argument("path")
    sub.add_parser("selfcheck")
    st = sub.add_parser("selftest")
    st.add_argument("rest", nargs=argparse.REMAINDER)
    a = ap.parse_args(argv)
    if a.cmd == "selftest":
        from .selftest.run import main as stmain
        return stmain(a.rest)
    if a.cmd == "explain":
        with open(a.path) as fh:
            d = json.load(fh)
        print("property %s  rule %s" % (d["property"], d["rule"]))
        print("site   %s" % d["site"])
        print("key    %s" % d["key"])
        print("detail %s" % d["detail"])
        for p in d.get("path", []):
            print("    " + p)
        return 0
    if a.cmd == "selfcheck":
        from .selfcheck import selfcheck
        return selfcheck()
    if a.cmd != "check":
        ap.print_help()
        return 2
    pid = a.pid.upper()
    seed = int(os.environ.get("VERIF_SEED", "0") or 0)
    tier = a.tier if a.tier in ("quick", "thorough") else "quick"
    from .loader import AnalysisError
    from .report import Report
    try:
        from .engine import Engine
        mod = importlib.import_module("dfv.rules.%s" % pid.lower())
        eng = Engine(a.root)
        rep = Report(pid, tier, seed)
        mod.run(eng, rep)
        if tier == "thorough":
            if hasattr(mod, "thorough"):
                mod.thorough(eng, rep)
            # self-test of the checker on scratch variants of the current tree (firing / silent), 16 workers
            from .selftest.run import run_variants, summarise
            res, dt = run_variants([pid], jobs=int(os.environ.get("DFV_JOBS", "16")))
            summ = summarise(res)
            rep.extra["selftest"] = dict(summ, wall_s=round(dt, 1), variants=[{"id": v, "status": st, "detail": m[:200]} for (v, _p, st, m) in res])
            rep.explain("Thorough tier: additionally %d catalogue variants of the current tree (one construct broken each / behaviour-preserving rewrites) were analysed on "
                        "scratch copies: %s." % (len(res), summ))
            for (v, _p, st, m) in res:
                if st in ("missed", "false-alarm", "error"):
                    rep.unknown("selftest", v, "checker self-test failed (%s): %s" % (st, m[:300]))
                elif st in ("fired", "silent"):
                    rep.ok("selftest.%s" % ("firing-variant" if st == "fired" else "silent-variant"), v,
                           "variant %s: %s" % (v, "violation reported on the broken construct" if st == "fired" else "verdict unchanged by the rewrite"))
        code, lines = rep.finalize(hashes=eng.prog.hashes, resolver_stats=eng.res.stats(), write=not a.no_evidence)
    except AnalysisError as ex:
        print("ANALYSIS-ERROR property=%s %s" % (pid, ex))
        return 2
    except Exception:
        traceback.print_exc()
        print("ANALYSIS-ERROR property=%s internal error in the analyser (traceback above)" % pid)
        return 2
    for ln in lines:
        print(ln)
    n_ob = len([o for o in rep.obs if o.verdict != "note"])
    n_ok = len([o for o in rep.obs if o.verdict == "discharged"])
    print("%s tier=%s: %d rule instances, %d discharged, exit %d" % (pid, tier, n_ob, n_ok, code))
    return code


if __name__ == "__main__":
    sys.exit(main())
