"""Linear-relation analysis for the box trust-region routines (rule C12-5).

Abstract interpretation of structured Python (for / if / break / continue / return) over the domain

    vector variable  |->  linear form   sum_k  coeff_k * word_k

where a word is a chain of linear operators applied to a symbolic vector -- H(.) (multiplication by the model Hessian) and E_k(.) (restriction to
the components that are free under version k of the active-set mask; E_k is an idempotent projection) -- and the coefficients are scalar expressions
(sympy, used only to normalise rational functions; there is no search and no solver).  Scalars of the program are opaque symbols, versioned by assignment.

  * merge points keep relations between variables: v = v_0 + sum_i chi_i (v_i - v_0) with one indicator symbol chi_i per incoming branch,
    shared by all variables (the forms stay linear, so a relation that is linear in the variables survives the merge);
  * loops are handled by candidate invariants that are checked and dropped until stable (Houdini): the claimed relation itself, "v is the entry
    value of v with the entry value of the anchor replaced by its current value", "v lies in the range of E_k", "the mask did not change";
    whatever is left unknown at a loop head is a fresh symbol;
  * a claim that is not inductive is re-examined on the first pass through each loop from the precise entry state: a non-zero residual there is a
    definite counter-example shape (the statements, as written, do not keep the relation); otherwise the outcome is 'unknown'.

Nothing is executed: the program text is interpreted over symbols.
"""
import ast
import itertools

import sympy as sp

from .loader import ekey


class Unsupported(Exception):
    pass


class _Found(Exception):
    pass


class _Deadline(Exception):
    pass


FIRST_PASSES_BUDGET_S = 150.0
_deadline = [None]


UNROLL = 2
REDUCTIONS = {"sumsq", "dot", "sum", "norm", "max", "min", "amax", "amin", "len", "all", "any", "float", "int", "abs", "sqrt", "isnan", "isfinite", "allclose", "range"}


_counter = itertools.count(1)
_samples = {}


def _sample(sym):
    """a fixed rational value per symbol (derived from its name, so runs are reproducible)"""
    v = _samples.get(sym)
    if v is None:
        import zlib
        h = zlib.crc32(sym.name.encode())
        v = _samples[sym] = sp.Rational(3 + h % 997, 7 + (h // 997) % 89)
    return v


def fresh(prefix):
    return "%s#%d" % (prefix, next(_counter))


# ------------------------------------------------------------------------------------------------ linear forms
class Form(object):
    """dict word -> coefficient; word = (ops, atom), ops = tuple of 'H' / ('E', k) / ('Ec', k), outermost first"""
    __slots__ = ("t",)

    def __init__(self, t=None):
        self.t = dict(t or {})

    @staticmethod
    def atom(name):
        return Form({((), name): sp.Integer(1)})

    def copy(self):
        return Form(self.t)

    def add(self, other, k=1):
        out = dict(self.t)
        for w, c in other.t.items():
            n = out.get(w, 0) + k * c
            if n == 0:
                out.pop(w, None)
            else:
                out[w] = n
        return Form(out)

    def scale(self, c):
        if c == 0:
            return Form()
        return Form(dict((w, c * v) for w, v in self.t.items()))

    def _norm(self):
        out = {}
        for w, c in self.t.items():
            c = sp.cancel(sp.together(sp.sympify(c)))
            if c != 0:
                out[w] = c
        self.t = out
        return self

    def is_zero(self):
        """exact: a coefficient that evaluates to non-zero at a (deterministic) rational sample point is non-zero; one that evaluates to zero is confirmed by
        normalising the rational function (polynomial identity testing only speeds up the common non-zero case)"""
        if not self.t:
            return True
        for w in list(self.t):
            c = sp.sympify(self.t[w])
            syms = c.free_symbols
            if syms:
                try:
                    val = c.xreplace(dict((x, _sample(x)) for x in syms))
                    if val.is_number and val != 0 and val.is_finite:
                        return False
                except Exception:
                    pass
            if sp.cancel(sp.together(c)) == 0:
                del self.t[w]
            else:
                return False
        return not self.t

    def apply(self, op):
        out = {}
        for (ops, a), c in self.t.items():
            if isinstance(op, tuple) and op[0] == "E" and ops and ops[0] == op:
                nops = ops                                   # E_k E_k = E_k
            else:
                nops = (op,) + ops
            out[(nops, a)] = out.get((nops, a), 0) + c
        return Form(out)

    def subst(self, atom, form):
        out = Form()
        for (ops, a), c in self.t.items():
            if a != atom:
                out = out.add(Form({(ops, a): c}))
                continue
            f = form
            for op in reversed(ops):
                f = f.apply(op)
            out = out.add(f, c)
        return out

    def atoms(self):
        return set(a for (_ops, a) in self.t)

    def __str__(self):
        if not self.t:
            return "0"
        parts = []
        for (ops, a), c in sorted(self.t.items(), key=lambda kv: str(kv[0])):
            w = a.split("#")[0]
            for op in reversed(ops):
                w = "H.%s" % w if op == "H" else "E(%s)" % w
            cs = str(c)
            parts.append(w if cs == "1" else "(%s)*%s" % (cs, w))
        return " + ".join(parts)


ZERO = Form()


class State(object):
    """vec: tracked vectors; scal: scalars (opaque symbols, loop-control flags concretely); msk: temporaries holding the free components of a vector
    (`tmp = cth * d[xbdi == 0] + ...`): (form of the full vector, mask key, mask version at the read); mv: current mask version"""
    __slots__ = ("vec", "scal", "mv", "msk")

    def __init__(self, vec=None, scal=None, mv=None, msk=None):
        self.vec, self.scal, self.mv, self.msk = dict(vec or {}), dict(scal or {}), mv, dict(msk or {})

    def copy(self):
        return State(self.vec, self.scal, self.mv, self.msk)

    def key(self):
        """the discrete part of the state: mask version and the loop-control flags whose value is known"""
        return (self.mv, tuple(sorted((k, bool(v)) for k, v in self.scal.items() if v is sp.true or v is sp.false)))


def merge(states):
    """one state that covers all of `states` (which share their discrete part, or lose it)"""
    states = [s for s in states if s is not None]
    if not states:
        return None
    if len(states) == 1:
        return states[0].copy()
    base = states[0]
    chis = [None] + [sp.Symbol(fresh("chi")) for _ in states[1:]]
    out = State(mv=base.mv if all(s.mv == base.mv for s in states) else fresh("K"))
    for v in base.vec:
        if not all(v in s.vec for s in states):
            continue
        f = base.vec[v]
        for s, chi in zip(states[1:], chis[1:]):
            d = s.vec[v].add(base.vec[v], -1)
            if d.t:
                f = f.add(d, chi)
        out.vec[v] = f
    for v in base.scal:
        if all(v in s.scal and s.scal[v] == base.scal[v] for s in states):
            out.scal[v] = base.scal[v]
        elif all(v in s.scal for s in states):
            out.scal[v] = sp.Symbol(fresh(v))
    for v, m in base.msk.items():
        if all(v in s.msk and s.msk[v][1:] == m[1:] and not s.msk[v][0].add(m[0], -1).t for s in states):
            out.msk[v] = m
    return out


def compress(states, limit=6):
    """merge the states that agree on their discrete part; if there are still too many, merge everything.  States whose vectors are identical are
    merged first (they differ in opaque scalars only), which keeps the indicator symbols few."""
    same = {}
    for s in states:
        if s is not None:
            sig = (s.key(), frozenset((v, frozenset(f.t.items())) for v, f in s.vec.items()))
            same.setdefault(sig, []).append(s)
    states = []
    for g in same.values():
        rep_ = g[0].copy()
        for v in list(rep_.scal):
            if not all(v in x.scal and x.scal[v] == rep_.scal[v] for x in g):
                rep_.scal[v] = sp.Symbol(fresh(v)) if all(v in x.scal for x in g) else None
                if rep_.scal[v] is None:
                    del rep_.scal[v]
        states.append(rep_)
    groups = {}
    for s in states:
        groups.setdefault(s.key(), []).append(s)
    out = [merge(g) for g in groups.values()]
    if len(out) > limit:
        out = [merge(out)]
    return out


# ------------------------------------------------------------------------------------------------ interpreter
class Outcome(object):
    def __init__(self):
        self.next, self.brk, self.cont, self.ret = [], [], [], []

    def absorb(self, o):
        self.brk += o.brk
        self.cont += o.cont
        self.ret += o.ret


class Spec(object):
    def __init__(self, H, d, gnew, mask, clip=(), callees=()):
        self.H, self.d, self.gnew, self.mask, self.clip, self.callees = H, d, gnew, mask, set(clip), dict(callees)


class Interp(object):
    """one function body; `claimC` is the constant form C of the claim  gnew - H(d) == C  (set once d and gnew are both defined)"""

    def __init__(self, eng, fi, spec, mode, report, depth=0):
        self.eng, self.fi, self.spec, self.mode, self.report, self.depth = eng, fi, spec, mode, report, depth
        self.claimC = None
        self.quiet = 0
        self.stats = {"loops": set(), "kept": set(), "dropped": set(), "checks": set()}

    def say(self, f, node, where, r):
        if not self.quiet:
            self.report(f, node, where, r)

    # ---- expressions
    def scalar(self, st, e):
        if isinstance(e, ast.Constant) and isinstance(e.value, bool):
            return sp.true if e.value else sp.false
        if isinstance(e, ast.Constant) and isinstance(e.value, (int, float)):
            return sp.nsimplify(e.value, rational=True)
        if isinstance(e, ast.Name) and e.id not in st.vec:
            if e.id not in st.scal:
                st.scal[e.id] = sp.Symbol(fresh(e.id))
            return st.scal[e.id]
        if isinstance(e, ast.BinOp) and isinstance(e.op, (ast.Add, ast.Sub, ast.Mult, ast.Div, ast.Pow)):
            kl, l = self.ev(st, e.left)
            kr, r = self.ev(st, e.right)
            if kl == "s" and kr == "s" and not any(x in (sp.true, sp.false) for x in (l, r)):
                return l + r if isinstance(e.op, ast.Add) else l - r if isinstance(e.op, ast.Sub) else l * r if isinstance(e.op, ast.Mult) else l / r if isinstance(e.op, ast.Div) else l ** r
        if isinstance(e, ast.UnaryOp) and isinstance(e.op, ast.USub):
            k, v = self.ev(st, e.operand)
            if k == "s" and v not in (sp.true, sp.false):
                return -v
        return sp.Symbol(fresh("t"))

    def is_mask_sub(self, e):
        return isinstance(e, ast.Subscript) and isinstance(e.slice, ast.Compare) and len(e.slice.ops) == 1 and isinstance(e.slice.left, ast.Name) \
            and e.slice.left.id == self.spec.mask and isinstance(e.slice.ops[0], (ast.Eq, ast.NotEq)) and isinstance(e.slice.comparators[0], ast.Constant)

    def mask_key(self, e):
        return ("eq" if isinstance(e.slice.ops[0], ast.Eq) else "ne", e.slice.comparators[0].value)

    def ev(self, st, e, masked=None):
        """('v', Form) | ('s', sympy)"""
        if isinstance(e, ast.Name) and e.id in st.vec:
            return "v", st.vec[e.id]
        if isinstance(e, ast.Name) and e.id in st.msk:
            return "m", st.msk[e.id]
        if isinstance(e, ast.Call):
            f = e.func
            if isinstance(f, ast.Attribute) and f.attr == "copy" and not e.args:
                return self.ev(st, f.value, masked)
            if isinstance(f, ast.Attribute) and f.attr == "dot" and isinstance(f.value, ast.Name) and f.value.id == self.spec.H and len(e.args) == 1:
                k, v = self.ev(st, e.args[0])
                if k == "v":
                    return "v", v.apply("H")
                raise Unsupported("`%s`: %s is applied to something the analysis does not track as a vector" % (ekey(e)[:40], self.spec.H))
            if ekey(f) in ("np.dot", "numpy.dot") and len(e.args) == 2 and isinstance(e.args[0], ast.Name) and e.args[0].id == self.spec.H:
                k, v = self.ev(st, e.args[1])
                if k == "v":
                    return "v", v.apply("H")
            if ekey(f) in ("np.zeros", "numpy.zeros") and e.args and not any(kw.arg == "dtype" for kw in e.keywords):
                shp = e.args[0]
                if isinstance(shp, ast.Tuple) and len(shp.elts) == 1 or isinstance(shp, ast.Name):
                    return "v", ZERO
            if ekey(f).split(".")[-1] in self.spec.clip and e.args:
                return self.ev(st, e.args[0], masked)          # the final clipping is the subject of C12-1; it is the identity for this relation
            last = ekey(f).split(".")[-1]
            if last in ("zeros_like",) and e.args and isinstance(e.args[0], ast.Name) and e.args[0].id in st.vec:
                return "v", ZERO
            if last in ("empty", "ones", "full", "empty_like", "ones_like", "full_like", "array", "asarray", "zeros_like") and not any(kw.arg == "dtype" for kw in e.keywords):
                return "v", Form.atom(fresh("U"))
            whole = [a for a in e.args if isinstance(a, ast.Name) and a.id in st.vec]
            if whole and last not in REDUCTIONS:
                return "v", Form.atom(fresh("U"))           # an unknown routine handed a tracked vector: an unknown vector
            return "s", sp.Symbol(fresh("t"))
        if isinstance(e, ast.Subscript):
            if self.is_mask_sub(e) and isinstance(e.value, ast.Name) and e.value.id in st.vec:
                return "m", (st.vec[e.value.id], self.mask_key(e), st.mv)       # the components selected by the mask, carried as the full vector
            return "s", sp.Symbol(fresh("t"))
        if isinstance(e, ast.BinOp):
            kl, l = self.ev(st, e.left, masked)
            kr, r = self.ev(st, e.right, masked)
            if "m" in (kl, kr):
                op = e.op
                if kl == "m" and kr == "m":
                    if l[1:] == r[1:] and isinstance(op, (ast.Add, ast.Sub)):
                        return "m", (l[0].add(r[0], 1 if isinstance(op, ast.Add) else -1), l[1], l[2])
                elif kl == "m" and kr == "s" and isinstance(op, (ast.Mult, ast.Div)) and r not in (sp.true, sp.false):
                    return "m", (l[0].scale(r if isinstance(op, ast.Mult) else 1 / r), l[1], l[2])
                elif kl == "s" and kr == "m" and isinstance(op, ast.Mult) and l not in (sp.true, sp.false):
                    return "m", (r[0].scale(l), r[1], r[2])
                return "v", Form.atom(fresh("U"))
            if kl == "v" and kr == "v":
                if isinstance(e.op, ast.Add):
                    return "v", l.add(r)
                if isinstance(e.op, ast.Sub):
                    return "v", l.add(r, -1)
                return "v", Form.atom(fresh("U"))
            if kl == "v" and kr == "s":
                if isinstance(e.op, ast.Mult):
                    return "v", l.scale(r)
                if isinstance(e.op, ast.Div):
                    return "v", l.scale(1 / r)
                return "v", Form.atom(fresh("U"))
            if kl == "s" and kr == "v":
                if isinstance(e.op, ast.Mult):
                    return "v", r.scale(l)
                return "v", Form.atom(fresh("U"))
            if any(x in (sp.true, sp.false) for x in (l, r)):
                return "s", sp.Symbol(fresh("t"))
            op = e.op
            if isinstance(op, (ast.Add, ast.Sub, ast.Mult, ast.Div, ast.Pow)):
                return "s", (l + r if isinstance(op, ast.Add) else l - r if isinstance(op, ast.Sub) else l * r if isinstance(op, ast.Mult) else l / r if isinstance(op, ast.Div) else l ** r)
            return "s", sp.Symbol(fresh("t"))
        if isinstance(e, ast.UnaryOp) and isinstance(e.op, ast.USub):
            k, v = self.ev(st, e.operand, masked)
            if k == "v":
                return k, v.scale(-1)
            if k == "m":
                return k, (v[0].scale(-1), v[1], v[2])
            return k, (-v if v not in (sp.true, sp.false) else sp.Symbol(fresh("t")))
        return "s", self.scalar(st, e)

    def truth(self, st, test):
        """True / False when the test is a known loop-control flag (or its negation), else None"""
        neg = False
        while isinstance(test, ast.UnaryOp) and isinstance(test.op, ast.Not):
            test, neg = test.operand, not neg
        if isinstance(test, ast.Name):
            v = st.scal.get(test.id)
            if v is sp.true:
                return not neg
            if v is sp.false:
                return neg
        if isinstance(test, ast.Compare) and len(test.ops) == 1 and isinstance(test.left, ast.Name) and isinstance(test.comparators[0], ast.Constant) \
                and isinstance(test.comparators[0].value, int) and not isinstance(test.comparators[0].value, bool):
            v = st.scal.get(test.left.id)
            if isinstance(v, sp.Integer):
                a, b = int(v), test.comparators[0].value
                op = test.ops[0]
                r = a == b if isinstance(op, ast.Eq) else a != b if isinstance(op, ast.NotEq) else a < b if isinstance(op, ast.Lt) else a <= b if isinstance(op, ast.LtE) \
                    else a > b if isinstance(op, ast.Gt) else a >= b if isinstance(op, ast.GtE) else None
                if r is not None:
                    return r != neg
        return None

    # ---- statements
    def block(self, stmts, states):
        out = Outcome()
        cur = list(states)
        for s in stmts:
            if not cur:
                break
            nxt = []
            for st in cur:
                o = self.stmt(s, st)
                out.absorb(o)
                nxt += o.next
            cur = compress(nxt)
        out.next = cur
        return out

    def assign_name(self, st, name, kind, val):
        if kind == "v":
            st.vec[name] = val
            st.scal.pop(name, None)
            st.msk.pop(name, None)
        elif kind == "m":
            st.msk[name] = val
            st.vec.pop(name, None)
            st.scal.pop(name, None)
        else:
            st.msk.pop(name, None)
            # program scalars are opaque: only their identity matters (the same `cth` in the update of gnew and of d), so a computed value is a new symbol
            if not (val in (sp.true, sp.false) or isinstance(val, (sp.Symbol, sp.Number))):
                val = sp.Symbol(fresh(name))
            st.scal[name] = val
            st.vec.pop(name, None)

    def note_claim(self, st):
        if self.claimC is None and self.spec.d in st.vec and self.spec.gnew in st.vec:
            self.claimC = st.vec[self.spec.gnew].add(st.vec[self.spec.d].apply("H"), -1)

    def stmt(self, s, st):
        if _deadline[0] is not None:
            import time
            if time.time() > _deadline[0]:
                raise _Deadline()
        o = Outcome()
        st = st.copy()
        if isinstance(s, ast.Assign):
            if len(s.targets) == 1 and isinstance(s.targets[0], ast.Name):
                k, v = self.ev(st, s.value)
                self.assign_name(st, s.targets[0].id, k, v)
            elif len(s.targets) == 1 and isinstance(s.targets[0], (ast.Tuple, ast.List)):
                self.assign_tuple(st, s)
            else:
                for t in s.targets:
                    self.store_sub(st, t, s.value)
            self.note_claim(st)
        elif isinstance(s, ast.AugAssign):
            t = s.target
            if isinstance(t, ast.Name):
                k, v = self.ev(st, s.value)
                if t.id in st.vec:
                    cur = st.vec[t.id]
                    if k == "v" and isinstance(s.op, (ast.Add, ast.Sub)):
                        st.vec[t.id] = cur.add(v, 1 if isinstance(s.op, ast.Add) else -1)
                    elif k == "s" and isinstance(s.op, (ast.Mult, ast.Div)):
                        st.vec[t.id] = cur.scale(v if isinstance(s.op, ast.Mult) else 1 / v)
                    else:
                        st.vec[t.id] = Form.atom(fresh("U"))
                elif k in ("v", "m"):
                    st.vec[t.id] = Form.atom(fresh("U"))
                    st.scal.pop(t.id, None)
                    st.msk.pop(t.id, None)
                else:
                    cur = self.scalar(st, t)
                    if cur in (sp.true, sp.false) or v in (sp.true, sp.false):
                        st.scal[t.id] = sp.Symbol(fresh(t.id))
                    else:
                        st.scal[t.id] = sp.Symbol(fresh(t.id))
            else:
                self.store_sub(st, t, None)
        elif isinstance(s, ast.If):
            tv = self.truth(st, s.test)
            outs = []
            if tv is not False:
                outs.append(self.block(s.body, [st.copy()]))
            if tv is not True:
                outs.append(self.block(s.orelse, [st.copy()]))
            for a in outs:
                o.absorb(a)
                o.next += a.next
            o.next = compress(o.next)
            return o
        elif isinstance(s, (ast.For, ast.While)):
            return self.loop(s, st)
        elif isinstance(s, ast.Break):
            o.brk.append(st)
            return o
        elif isinstance(s, ast.Continue):
            o.cont.append(st)
            return o
        elif isinstance(s, ast.Return):
            o.ret.append((st, s))
            self.check_return(st, s)
            return o
        elif isinstance(s, (ast.Expr, ast.Assert, ast.Pass)):
            pass
        else:
            raise Unsupported("statement `%s` at line %d" % (type(s).__name__, s.lineno))
        o.next = [st]
        return o

    def store_sub(self, st, t, value):
        root = t
        while isinstance(root, (ast.Subscript, ast.Attribute)):
            root = root.value
        if not isinstance(root, ast.Name):
            return
        if root.id == self.spec.mask:
            st.mv = fresh("K")
            return
        if root.id not in st.vec:
            return
        if self.is_mask_sub(t) and t.value is root and value is not None:
            key = self.mask_key(t)
            free = key == ("eq", 0)
            comp = key == ("ne", 0)
            if not (free or comp):
                st.vec[root.id] = Form.atom(fresh("U"))
                return
            k, v = self.ev(st, value, masked=key)
            if k == "s":
                v = ZERO if v == 0 else Form.atom("ONE").scale(v)
            elif k == "m":
                v = v[0] if (v[1] == key and v[2] == st.mv) else Form.atom(fresh("U"))     # free components read under the same mask (version)
            else:
                v = Form.atom(fresh("U"))
            cur = st.vec[root.id]
            E = ("E", st.mv)
            if free:      # v_new = v - E(v) + E(rhs)
                st.vec[root.id] = cur.add(cur.apply(E), -1).add(v.apply(E))
            else:         # complementary mask: v_new = E(v) + rhs - E(rhs)
                st.vec[root.id] = cur.apply(E).add(v).add(v.apply(E), -1)
            return
        if isinstance(t, ast.Subscript) and isinstance(t.slice, ast.Slice) and t.slice.lower is None and t.slice.upper is None and value is not None:
            k, v = self.ev(st, value)
            st.vec[root.id] = v if k == "v" else (ZERO if v == 0 else Form.atom("ONE").scale(v))
            return
        st.vec[root.id] = Form.atom(fresh("U"))

    def assign_tuple(self, st, s):
        names = [e.id if isinstance(e, ast.Name) else None for e in s.targets[0].elts]
        call = s.value
        callee = None
        if isinstance(call, ast.Call):
            ci = self.eng.res.calls.get(id(call))
            if ci is not None and len(ci.targets) == 1 and ci.targets[0].fid in self.spec.callees:
                callee = ci.targets[0]
        if callee is None or self.depth > 2:
            for n in names:
                if n is not None:
                    st.vec.pop(n, None)
                    st.scal[n] = sp.Symbol(fresh(n))
            return
        from .resolve import bind_call
        b = bind_call(call, callee, False)
        cspec = self.spec.callees[callee.fid]
        sub = Interp(self.eng, callee, cspec, self.mode, self.report, self.depth + 1)
        sub.quiet = self.quiet
        est = State(mv=st.mv)
        for pn, a in b.params.items():
            if isinstance(a, ast.AST):
                k, v = self.ev(st, a)
                if k == "v":
                    est.vec[pn] = v
                elif not (isinstance(a, ast.Name) and a.id == self.spec.mask):
                    est.scal[pn] = v
        sub.note_claim(est)
        out = sub.block(list(callee.node.body), [est])
        for k in self.stats:
            self.stats[k] |= sub.stats[k]
        rets = []
        for (rst, rnode) in out.ret:
            v = rnode.value
            elts = v.elts if isinstance(v, ast.Tuple) else [v]
            if len(elts) != len(names):
                continue
            r = State(mv=rst.mv)
            for n, e in zip(names, elts):
                if n is None:
                    continue
                k, val = sub.ev(rst, e)
                if k == "v":
                    r.vec[n] = val
            rets.append(r)
        m = merge(rets)
        for n in names:
            if n is None:
                continue
            if m is not None and n in m.vec:
                st.vec[n] = m.vec[n]
                st.scal.pop(n, None)
            else:
                st.vec.pop(n, None)
                st.scal[n] = sp.Symbol(fresh(n))
        st.mv = fresh("K")

    # ---- the claim
    def residual(self, st):
        if self.claimC is None or self.spec.d not in st.vec or self.spec.gnew not in st.vec:
            return None
        return st.vec[self.spec.gnew].add(st.vec[self.spec.d].apply("H"), -1).add(self.claimC, -1)

    def check_return(self, st, s):
        v = s.value
        if not isinstance(v, ast.Tuple) or len(v.elts) < 2:
            return
        kd, d = self.ev(st, v.elts[0])
        kg, g = self.ev(st, v.elts[1])
        if kd != "v" or kg != "v" or self.claimC is None:
            return
        r = g.add(d.apply("H"), -1).add(self.claimC, -1)
        if not self.quiet:
            self.stats["checks"].add("return@%d" % s.lineno)
        self.say(self.fi, s, "return", r)

    # ---- loops
    def modified(self, node):
        names, mask = set(), False
        for sub in ast.walk(node):
            if isinstance(sub, (ast.Assign, ast.AugAssign)):
                for t in (sub.targets if isinstance(sub, ast.Assign) else [sub.target]):
                    for e in (t.elts if isinstance(t, (ast.Tuple, ast.List)) else [t]):
                        root = e
                        while isinstance(root, (ast.Subscript, ast.Attribute)):
                            root = root.value
                        if isinstance(root, ast.Name):
                            if root.id == self.spec.mask:
                                mask = True
                            else:
                                names.add(root.id)
            elif isinstance(sub, (ast.For,)):
                for e in ast.walk(sub.target):
                    if isinstance(e, ast.Name):
                        names.add(e.id)
        return names, mask

    def loop(self, node, st):
        self.stats["loops"].add(node.lineno)
        o = Outcome()
        mod, maskmod = self.modified(node)
        body = list(node.body)
        if isinstance(node, ast.For):
            for e in ast.walk(node.target):
                if isinstance(e, ast.Name):
                    st.scal[e.id] = sp.Symbol(fresh(e.id))
                    st.vec.pop(e.id, None)
        if self.mode == "first":
            # the first UNROLL passes through the body from the precise entry state (no generalisation): what fails here fails for real data shapes
            exits = [st]
            cur = [st.copy()]
            # `for ii in range(N)`: on the k-th pass the loop variable is the number k (so `if ii == 0:` is decided)
            lv, start = None, None
            if isinstance(node, ast.For) and isinstance(node.target, ast.Name) and isinstance(node.iter, ast.Call) and ekey(node.iter.func) == "range" and not node.iter.keywords:
                a = node.iter.args
                if len(a) == 1:
                    lv, start = node.target.id, 0
                elif len(a) >= 2 and isinstance(a[0], ast.Constant) and isinstance(a[0].value, int) and (len(a) == 2 or (isinstance(a[2], ast.Constant) and a[2].value == 1)):
                    lv, start = node.target.id, a[0].value
            for k in range(UNROLL):
                if not cur:
                    break
                if lv is not None:
                    for c in cur:
                        c.scal[lv] = sp.Integer(start + k)
                out = self.block(body, cur)
                backs = out.next + out.cont
                for b in backs:
                    r = self.residual(b)
                    if r is not None:
                        self.say(self.fi, node, "%s pass through the loop at line %d" % (("first", "second", "third")[k], node.lineno), r)
                o.ret += out.ret
                exits += backs + out.brk
                cur = compress(backs)
            o.next = compress(exits)
            return o
        # ---- candidates
        d, gn = self.spec.d, self.spec.gnew
        dsym = None
        if d in st.vec and len(st.vec[d].t) == 1:
            (w, c), = st.vec[d].t.items()
            if w[0] == () and c == 1:
                dsym = w[1]
        cands = {}
        for v in sorted(mod):
            if v not in st.vec:
                continue
            if v == d:
                cands[v] = [("unchanged", None)]
                continue
            lst = [("unchanged", None)]
            if v == gn and self.claimC is not None and d in st.vec:
                lst.append(("claim", None))
            if dsym is not None and dsym in st.vec[v].atoms() and d in mod:
                lst.append(("follows-d", dsym))
            lst.append(("range", None))
            cands[v] = lst
        flagmod = [v for v in mod if st.scal.get(v) in (sp.true, sp.false)]
        flag_keep = dict((v, True) for v in flagmod)
        mask_keep = True
        order = ([d] if d in cands else []) + [v for v in sorted(cands) if v != d]
        head = None
        for _round in range(14):
            head = st.copy()
            if maskmod and not mask_keep:
                head.mv = fresh("K")
            for v in sorted(mod):
                if v in st.vec:
                    head.vec.pop(v)
                elif v in head.scal and not flag_keep.get(v, False):
                    head.scal[v] = sp.Symbol(fresh(v))
            for v in order:
                kind = cands[v][0][0] if cands[v] else None
                if kind == "unchanged":
                    head.vec[v] = st.vec[v]
                elif kind == "claim":
                    head.vec[v] = self.claimC.add(head.vec[d].apply("H"))
                elif kind == "follows-d":
                    head.vec[v] = st.vec[v].subst(cands[v][0][1], head.vec[d])
                elif kind == "range":
                    head.vec[v] = Form.atom(fresh(v.upper())).apply(("E", head.mv))
                else:
                    head.vec[v] = Form.atom(fresh(v.upper()))
            self.quiet += 1
            try:
                out = self.block(body, [head.copy()])
            finally:
                self.quiet -= 1
            backs = out.next + out.cont
            changed = False
            if maskmod and mask_keep and any(b.mv != head.mv for b in backs):
                mask_keep = False
                changed = True
            for v in flagmod:
                if flag_keep[v] and any(b.scal.get(v) is not st.scal[v] for b in backs):
                    flag_keep[v] = False
                    changed = True
            for v in order:
                if not cands[v]:
                    continue
                kind, arg = cands[v][0]
                okc = True
                for b in backs + ([st] if kind in ("claim", "range") else []):
                    if v not in b.vec:
                        okc = False
                        break
                    if kind == "unchanged":
                        want = st.vec[v]
                    elif kind == "claim":
                        want = self.claimC.add(b.vec[d].apply("H")) if d in b.vec else None
                    elif kind == "follows-d":
                        want = st.vec[v].subst(arg, b.vec[d]) if d in b.vec else None
                    else:
                        want = b.vec[v].apply(("E", head.mv))
                    if want is None or not b.vec[v].add(want, -1).is_zero():
                        okc = False
                        break
                if kind == "range" and maskmod and not mask_keep:
                    okc = False
                if not okc:
                    self.stats["dropped"].add("%s:%s@%d" % (v, kind, node.lineno))
                    cands[v] = cands[v][1:]
                    changed = True
            if not changed:
                break
        else:
            raise Unsupported("candidate invariants of the loop at line %d did not stabilise" % node.lineno)
        for v in order:
            if cands[v]:
                self.stats["kept"].add("%s:%s@%d" % (v, cands[v][0][0], node.lineno))
        # final round with reporting on
        out = self.block(body, [head.copy()])
        backs = out.next + out.cont
        if gn in mod and gn in head.vec and d in head.vec:
            kept = cands.get(gn) and cands[gn][0][0] in ("claim", "unchanged")
            if not self.quiet:
                self.stats["checks"].add("loop@%d" % node.lineno)
            if not kept:
                for b in backs:
                    r = self.residual(b)
                    if r is not None:
                        self.say(self.fi, node, "back edge of the loop at line %d" % node.lineno, r)
        o.ret = out.ret
        o.next = compress([head] + backs + out.brk)
        return o


def analyse(eng, fid, spec):
    """-> (verdict, findings, stats): verdict in 'proved' / 'violated' / 'unknown'"""
    fi = eng.fn(fid)
    findings = {"inductive": [], "first": []}
    stats = {}
    for mode in ("inductive", "first"):
        def report(f, node, where, r, mode=mode):
            if r is not None and not r.is_zero():
                findings[mode].append((f, node, where, r))
                if mode == "first" and all("#" not in a for a in r.atoms()):
                    raise _Found()          # one definite witness is enough
        it = Interp(eng, fi, spec, mode, report)
        st = State(mv=fresh("K"))
        for p in fi.all_params:
            if p in (spec.d, spec.gnew) or p == "g":
                st.vec[p] = Form.atom(p)
        it.note_claim(st)
        import time
        _deadline[0] = time.time() + FIRST_PASSES_BUDGET_S if mode == "first" else None
        try:
            it.block(list(fi.node.body), [st])
        except _Found:
            pass
        except _Deadline:
            stats["first_passes_budget_exhausted"] = True      # no definite witness found in time: the verdict stays 'unknown'
        finally:
            _deadline[0] = None
        stats[mode] = it.stats
        if mode == "inductive" and not findings["inductive"]:
            return "proved", findings, stats
    definite = [x for x in findings["first"] if all("#" not in a for a in x[3].atoms())]
    if definite:
        findings["first"] = definite
        return "violated", findings, stats
    return "unknown", findings, stats
