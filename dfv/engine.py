"""Shared analysis context: program model, resolver, CFGs, value-flow graph, docs (all built lazily)."""
import ast

from . import REPO
from .loader import Program, AnalysisError, ekey
from .resolve import Resolver
from .cfg import cfg_of


class Engine(object):
    def __init__(self, root=None):
        self.root = root or REPO
        self.prog = Program(self.root)
        self.res = Resolver(self.prog)
        self._vfg = None
        self._docs = None

    def fn(self, fid):
        return self.prog.fn(fid)

    def cfg(self, fi):
        if isinstance(fi, str):
            fi = self.prog.fn(fi)
        return cfg_of(fi)

    @property
    def vfg(self):
        if self._vfg is None:
            from .vfg import VFG
            self._vfg = VFG(self)
        return self._vfg

    @property
    def docs(self):
        if self._docs is None:
            from .docs import Docs
            self._docs = Docs(self.root)
        return self._docs

    def call(self, node):
        ci = self.res.calls.get(id(node))
        if ci is None:
            raise AnalysisError("call %s not indexed" % ekey(node)[:60])
        return ci

    def calls_to(self, fid):
        """CallInfo list of all resolved call sites of function fid (anchor must exist)."""
        self.prog.fn(fid)
        return list(self.res.callers.get(fid, []))

    def calls_in(self, fi):
        return list(self.res.calls_in[fi.fid])

    def where(self, fi, node=None):
        return self.prog.where(fi, node)

    def reachable_from_solve(self):
        return self.res.reachable_from("solver.solve")
