"""Program model: parsed modules, functions (incl. nested defs and lambdas), classes.

Nothing is imported from the analysed repository; only `ast.parse` is used.
"""
import ast
import hashlib
import os

from . import REPO


class AnalysisError(Exception):
    """The analyser cannot decide (vanished anchor, unknown idiom, parse error) -> exit 2."""


MODULES = ["util", "params", "trust_region", "model", "diagnostic_info", "controller", "solver"]


def ekey(node):
    """Normalised source text of an expression / statement (formatting-independent)."""
    if node is None:
        return "None"
    try:
        return ast.unparse(node)
    except Exception:  # pragma: no cover
        return ast.dump(node)


class FunctionInfo(object):
    def __init__(self, module, qualname, node, cls=None, parent=None):
        self.module = module            # module short name, e.g. 'solver'
        self.qualname = qualname        # e.g. 'Controller.soft_restart', 'ctrsbox_sfista.gradient_Fu'
        self.node = node                # ast.FunctionDef or ast.Lambda
        self.cls = cls                  # class name or None
        self.parent = parent            # enclosing FunctionInfo or None
        self.children = []              # nested FunctionInfo
        self.is_lambda = isinstance(node, ast.Lambda)
        a = node.args
        self.posparams = [x.arg for x in a.posonlyargs + a.args]
        self.kwonly = [x.arg for x in a.kwonlyargs]
        self.vararg = a.vararg.arg if a.vararg else None
        self.kwarg = a.kwarg.arg if a.kwarg else None
        nd = len(a.defaults)
        self.defaults = {}
        if nd:
            for name, d in zip(self.posparams[-nd:], a.defaults):
                self.defaults[name] = d
        for x, d in zip(a.kwonlyargs, a.kw_defaults):
            if d is not None:
                self.defaults[x.arg] = d
        self.is_static = False
        if not self.is_lambda:
            for dec in node.decorator_list:
                if isinstance(dec, ast.Name) and dec.id == "staticmethod":
                    self.is_static = True
        self.is_method = cls is not None and parent is None and not self.is_static

    @property
    def fid(self):
        # `home`: the module this symbol lived in on the pinned tree (dfv/home.py) when it has since moved -- rules keep addressing it by its old identifier
        return "%s.%s" % (getattr(self, "home", None) or self.module, self.qualname)

    @property
    def all_params(self):
        r = list(self.posparams) + list(self.kwonly)
        if self.vararg:
            r.append(self.vararg)
        if self.kwarg:
            r.append(self.kwarg)
        return r

    def body(self):
        if self.is_lambda:
            return [ast.Return(value=self.node.body)]
        return self.node.body

    def __repr__(self):
        return "<fn %s>" % self.fid


class ClassInfo(object):
    def __init__(self, module, name, node):
        self.module = module
        self.name = name
        self.node = node
        self.methods = {}

    def __repr__(self):
        return "<class %s.%s>" % (self.module, self.name)


class ModuleInfo(object):
    def __init__(self, name, path, src, tree):
        self.name = name
        self.path = path
        self.src = src
        self.tree = tree
        self.functions = {}     # top-level functions by name
        self.classes = {}       # classes by name
        self.globals = {}       # name -> ast value node (module level simple assignments)
        self.all = None         # __all__ list or None
        self.star_imports = []  # module short names imported with *
        self.from_imports = {}  # local name -> (module short name, original name)
        self.lib_aliases = {}   # local name -> library dotted name (import numpy as np)


class Program(object):
    def __init__(self, root=None):
        self.root = root or REPO
        self.pkgdir = os.path.join(self.root, "dfols")
        self.modules = {}
        self.functions = {}   # fid -> FunctionInfo
        self.classes = {}     # class name -> ClassInfo (class names are unique in the package)
        self.hashes = {}
        self.parent = {}      # id(ast node) -> parent ast node
        self.owner = {}       # id(ast node) -> FunctionInfo owning that node (innermost)
        self._load()

    # ------------------------------------------------------------------
    def _load(self):
        if not os.path.isdir(self.pkgdir):
            raise AnalysisError("package directory %s not found" % self.pkgdir)
        present = sorted(f[:-3] for f in os.listdir(self.pkgdir)
                         if f.endswith(".py") and f != "__init__.py")
        for name in present:
            path = os.path.join(self.pkgdir, name + ".py")
            with open(path, "rb") as fh:
                raw = fh.read()
            self.hashes["dfols/%s.py" % name] = hashlib.sha256(raw).hexdigest()
            try:
                tree = ast.parse(raw.decode("utf-8"), filename=path)
            except SyntaxError as e:
                raise AnalysisError("cannot parse %s: %s" % (path, e))
            mi = ModuleInfo(name, path, raw.decode("utf-8"), tree)
            self.modules[name] = mi
        for name in MODULES:
            if name not in self.modules:
                raise AnalysisError("anchor module dfols/%s.py vanished" % name)
        for mi in self.modules.values():
            self._index_module(mi)
        self._apply_home_table()

    def _apply_home_table(self):
        """A top-level function / class that has moved to another module (and left no namesake behind) keeps its pinned identifier."""
        from .home import HOME
        moved = False
        for fi in list(self.functions.values()):
            top = fi.qualname.split(".")[0]
            want = HOME.get(top)
            if want and want != fi.module:
                there = self.modules.get(want)
                if there is None or (top not in there.functions and top not in there.classes):
                    fi.home = want
                    moved = True
        if moved:
            self.functions = dict((fi.fid, fi) for fi in self.functions.values())

    def _index_module(self, mi):
        for node in ast.walk(mi.tree):
            for ch in ast.iter_child_nodes(node):
                self.parent[id(ch)] = node
        for st in mi.tree.body:
            self._index_toplevel(mi, st)

    def _index_toplevel(self, mi, st):
        if isinstance(st, ast.FunctionDef):
            fi = FunctionInfo(mi.name, st.name, st)
            mi.functions[st.name] = fi
            self._register(fi)
        elif isinstance(st, ast.ClassDef):
            ci = ClassInfo(mi.name, st.name, st)
            mi.classes[st.name] = ci
            self.classes[st.name] = ci
            for sub in st.body:
                if isinstance(sub, ast.FunctionDef):
                    fi = FunctionInfo(mi.name, "%s.%s" % (st.name, sub.name), sub, cls=st.name)
                    ci.methods[sub.name] = fi
                    self._register(fi)
        elif isinstance(st, ast.Assign):
            for t in st.targets:
                if isinstance(t, ast.Name):
                    mi.globals[t.id] = st.value
                    if t.id == "__all__" and isinstance(st.value, (ast.List, ast.Tuple)):
                        mi.all = [e.value for e in st.value.elts if isinstance(e, ast.Constant)]
        elif isinstance(st, ast.ImportFrom):
            if st.level >= 1 and st.module:
                src = st.module.split(".")[-1]
                for al in st.names:
                    if al.name == "*":
                        mi.star_imports.append(src)
                    else:
                        mi.from_imports[al.asname or al.name] = (src, al.name)
            elif st.level == 0 and st.module:
                for al in st.names:
                    mi.lib_aliases[al.asname or al.name] = "%s.%s" % (st.module, al.name)
        elif isinstance(st, ast.Import):
            for al in st.names:
                mi.lib_aliases[al.asname or al.name.split(".")[0]] = al.name if al.asname else al.name.split(".")[0]
        elif isinstance(st, ast.Try):
            for sub in st.body + [s for h in st.handlers for s in h.body] + st.orelse + st.finalbody:
                self._index_toplevel(mi, sub)
        elif isinstance(st, ast.If):
            for sub in st.body + st.orelse:
                self._index_toplevel(mi, sub)

    def _register(self, fi):
        self.functions[fi.fid] = fi
        # own nodes + nested functions
        counter = {"lambda": 0}

        def handle(ch, owner):
            if isinstance(ch, ast.FunctionDef):
                sub = FunctionInfo(owner.module, "%s.%s" % (owner.qualname, ch.name), ch,
                                   cls=owner.cls, parent=owner)
                sub.is_method = False
                owner.children.append(sub)
                self.owner[id(ch)] = owner
                # default values and decorators are evaluated in the owner
                for d in ch.args.defaults + [k for k in ch.args.kw_defaults if k is not None] + ch.decorator_list:
                    self.owner[id(d)] = owner
                    visit(d, owner)
                self._register(sub)
            elif isinstance(ch, ast.Lambda):
                counter["lambda"] += 1
                sub = FunctionInfo(owner.module, "%s.<lambda%d>" % (owner.qualname, counter["lambda"]), ch,
                                   cls=owner.cls, parent=owner)
                sub.is_method = False
                owner.children.append(sub)
                self.owner[id(ch)] = owner
                for d in ch.args.defaults + [k for k in ch.args.kw_defaults if k is not None]:
                    self.owner[id(d)] = owner
                    visit(d, owner)
                self._register(sub)
            else:
                self.owner[id(ch)] = owner
                visit(ch, owner)

        def visit(node, owner):
            for ch in ast.iter_child_nodes(node):
                handle(ch, owner)

        self.owner[id(fi.node)] = fi.parent if fi.parent else None
        if fi.is_lambda:
            handle(fi.node.body, fi)
        else:
            for st in fi.node.body:
                handle(st, fi)

    # ------------------------------------------------------------------
    def fn(self, fid):
        """Anchor lookup: vanished function -> AnalysisError (exit 2)."""
        if fid not in self.functions:
            raise AnalysisError("anchor function %s vanished" % fid)
        return self.functions[fid]

    def cls(self, name):
        if name not in self.classes:
            raise AnalysisError("anchor class %s vanished" % name)
        return self.classes[name]

    def own_nodes(self, fi):
        """All AST nodes belonging to fi itself (not to nested functions/lambdas)."""
        out = []

        def handle(ch):
            out.append(ch)
            if isinstance(ch, ast.FunctionDef):
                for d in ch.args.defaults + [k for k in ch.args.kw_defaults if k is not None] + ch.decorator_list:
                    handle(d)
                return
            if isinstance(ch, ast.Lambda):
                for d in ch.args.defaults + [k for k in ch.args.kw_defaults if k is not None]:
                    handle(d)
                return
            for sub in ast.iter_child_nodes(ch):
                handle(sub)

        if fi.is_lambda:
            handle(fi.node.body)
        else:
            for st in fi.node.body:
                handle(st)
        return out

    def stmt_of(self, node):
        """Innermost enclosing statement of an AST node."""
        cur = node
        while cur is not None and not isinstance(cur, ast.stmt):
            cur = self.parent.get(id(cur))
        return cur

    def where(self, fi, node=None):
        s = "dfols/%s.py:%s" % (fi.module, fi.qualname)
        if node is not None and hasattr(node, "lineno"):
            s += ":%d" % node.lineno
        return s
