"""Obligation bookkeeping, known-findings handling, evidence and replay files."""
import json
import os
import time

VERIF = os.path.dirname(os.path.dirname(os.path.abspath(__file__)))
KNOWN_FILE = os.path.join(VERIF, "known_findings.json")


class Ob(object):
    __slots__ = ("rule", "site", "verdict", "detail", "key", "path", "nontrivial")

    def __init__(self, rule, site, verdict, detail="", key=None, path=None, nontrivial=True):
        self.rule = rule
        self.site = site
        self.verdict = verdict       # discharged | violated | unknown | note
        self.detail = detail
        self.key = key
        self.path = path or []
        self.nontrivial = nontrivial

    def as_dict(self):
        d = {"rule": self.rule, "site": self.site, "verdict": self.verdict}
        if self.detail:
            d["detail"] = self.detail
        if self.key:
            d["key"] = self.key
        if self.path:
            d["path"] = self.path
        return d


def load_known():
    if not os.path.exists(KNOWN_FILE):
        return {"findings": [], "fixed": []}
    with open(KNOWN_FILE) as fh:
        return json.load(fh)


class Report(object):
    def __init__(self, pid, tier="quick", seed=0):
        self.pid = pid
        self.tier = tier
        self.seed = seed
        self.obs = []
        self.t0 = time.time()
        self.explanations = []
        self.not_decided = []
        self.assumptions = []
        self.extra = {}
        self.counts = {}

    # ---- recording
    def explain(self, text):
        self.explanations.append(text)

    def ok(self, rule, site, detail="", path=None, nontrivial=True):
        self.obs.append(Ob(rule, site, "discharged", detail, path=path, nontrivial=nontrivial))

    def bad(self, rule, site, key, detail="", path=None):
        self.obs.append(Ob(rule, site, "violated", detail, key="%s|%s" % (rule, key), path=path))

    def unknown(self, rule, site, detail=""):
        self.obs.append(Ob(rule, site, "unknown", detail))

    def guarded(self, fn, *args, **kwargs):
        """Run one rule; an AnalysisError (vanished anchor, unrecognised shape) stops that rule only and is recorded as an undecided instance, so that a definite
        violation found by another rule of the same check is still reported (a violation outranks an unknown)."""
        from .loader import AnalysisError
        try:
            return fn(*args, **kwargs)
        except AnalysisError as ex:
            self.unknown(kwargs.get("rule") or getattr(fn, "__name__", "rule"), "analysis", str(ex))
            return None

    def note(self, rule, site, detail=""):
        self.obs.append(Ob(rule, site, "note", detail, nontrivial=False))

    def require_count(self, rule, what, found, minimum):
        """Anchor-count guard: fewer instances than confirmed by hand => the matcher lost its anchors (exit 2)."""
        self.counts["%s:%s" % (rule, what)] = {"found": found, "minimum": minimum}
        if found < minimum:
            self.unknown(rule, what, "anchor count %d below the confirmed minimum %d -- the rule would pass vacuously"
                         % (found, minimum))
            return False
        return True

    # ---- finishing
    def finalize(self, hashes=None, resolver_stats=None, write=True):
        if os.environ.get("DFV_NO_EVIDENCE"):
            write = False
        known = load_known()
        known_keys = {}
        for f in known.get("findings", []):
            if f.get("property") == self.pid:
                known_keys[f["key"]] = f
        lines = []
        violated = [o for o in self.obs if o.verdict == "violated"]
        unknown = [o for o in self.obs if o.verdict == "unknown"]
        new_viol = []
        known_hit = []
        seen_keys = set()
        for o in violated:
            if o.key in seen_keys:
                continue
            seen_keys.add(o.key)
            if o.key in known_keys:
                known_hit.append(o)
            else:
                new_viol.append(o)
        outdir = os.path.join(VERIF, "out", self.pid)
        if write:
            os.makedirs(outdir, exist_ok=True)
            for f in os.listdir(outdir):
                if f.startswith("violation-"):
                    os.remove(os.path.join(outdir, f))
        for o in known_hit:
            lines.append("KNOWN-FINDING: property=%s %s -- %s [%s]" % (self.pid, known_keys[o.key].get("what", o.detail), o.site, o.key))
        for k, o in enumerate(new_viol):
            path = os.path.join(outdir, "violation-%d.json" % k)
            if write:
                with open(path, "w") as fh:
                    json.dump({"property": self.pid, "rule": o.rule, "site": o.site, "key": o.key,
                               "detail": o.detail, "path": o.path}, fh, indent=1)
            lines.append("%s: %s -- %s  [%s]" % (o.site, o.rule, o.detail, o.key))
            for p in o.path[:40]:
                lines.append("      %s" % p)
            lines.append("VIOLATION property=%s replay=%s" % (self.pid, path))
        for o in unknown:
            lines.append("ANALYSIS-ERROR property=%s %s @ %s: %s" % (self.pid, o.rule, o.site, o.detail))
        if new_viol:
            code = 1      # a definite violation outranks an undecided instance (both are printed)
        elif unknown:
            code = 2
        else:
            code = 0
        # evidence
        real = [o for o in self.obs if o.verdict != "note"]
        distinct = set((o.rule, o.site) for o in real if o.nontrivial)
        samples = []
        per_rule = {}
        for o in real:
            per_rule.setdefault(o.rule, []).append(o)
        for rule in sorted(per_rule):
            for o in per_rule[rule][:3]:
                samples.append(o.as_dict())
        for o in violated[:20]:
            d = o.as_dict()
            if d not in samples:
                samples.append(d)
        ev = {
            "property_id": self.pid,
            "tier": self.tier,
            "seed": int(self.seed),
            "level": "other",
            "coverage": {
                "explanation": " ".join(self.explanations) or "static rule instances over /repo/dfols",
                "evaluations": len(real),
                "distinct_nontrivial": len(distinct),
                "rule": "one evaluation = one rule instance (rule x construct) examined on the current tree; "
                        "distinct = distinct (rule, site) pairs whose verdict required a path/flow/table query",
                "obligations": len(real),
                "discharged": len([o for o in real if o.verdict == "discharged"]),
                "known_findings_reported": len(known_hit),
                "unknown": len(unknown),
                "samples": samples[:60],
                "exhaustive": True,
                "instance_counts": self.counts,
                "per_rule": {r: {"instances": len(v),
                                 "discharged": len([o for o in v if o.verdict == "discharged"]),
                                 "violated": len([o for o in v if o.verdict == "violated"])}
                             for r, v in sorted(per_rule.items())},
                "not_decided": self.not_decided,
                "notes": [o.as_dict() for o in self.obs if o.verdict == "note"][:40],
                "analysed_files_sha256": hashes or {},
                "call_resolution": resolver_stats or {},
                "checker_cmd": "python3-vt -m dfv check %s --tier %s" % (self.pid, self.tier),
                "trusted_base": ["CPython ast", "networkx dominators", "dfv/tables.py frozen tables"],
            },
            "assumptions": self.assumptions,
            "wall_s": round(time.time() - self.t0, 3),
            "violations": len(new_viol),
        }
        ev["coverage"].update(self.extra)
        self.evidence = ev
        if write:
            evdir = os.path.join(VERIF, "evidence")
            os.makedirs(evdir, exist_ok=True)
            with open(os.path.join(evdir, "%s.json" % self.pid), "w") as fh:
                json.dump(ev, fh, indent=1, sort_keys=False)
        return code, lines
