"""Name/receiver resolution, abstract-atom propagation (0-CFA) and the call graph.

Atoms (hashable tuples) abstract *what an expression may denote*:
  ('C', cls)      instance of a package class
  ('K', cls)      the class object itself
  ('F', fid)      a package function / nested def / lambda (as a value)
  ('U', role)     an object handed in by the user through `solve` (objfun, h, prox_uh, nsamples callback,
                  argsf/argsh/argsprox tuples, x0, bounds, user_params, one user projection 'proj')
  ('L', atom)     list / sequence whose elements may be `atom`
  ('T', (s0,..))  tuple with per-position atom sets
  ('E',)          the empty tuple literal ()
  ('N',)          the literal None
Values without an interesting identity (numbers, arrays) have the empty set.
"""
import ast
import networkx as nx

from .loader import AnalysisError, ekey

BUILTINS = {"len", "max", "min", "range", "int", "float", "str", "abs", "list", "all", "any", "print",
            "isinstance", "sum", "tuple", "dict", "set", "sorted", "enumerate", "zip", "bool", "round",
            "unicode", "type", "repr", "map", "filter", "reversed", "iter", "next", "divmod", "pow",
            "ValueError", "RuntimeError", "TypeError", "Exception", "AssertionError", "OverflowError",
            "KeyError", "IndexError", "ZeroDivisionError", "ArithmeticError", "FloatingPointError",
            "StopIteration", "NotImplementedError", "super", "object", "hasattr", "getattr", "setattr",
            "id", "hash", "callable", "vars", "dir", "open", "input", "format", "slice", "complex", "bytes"}

USER_PARAMS = {  # parameters of solve() that are caller-owned objects, with the role atom they carry
    "objfun": ("U", "objfun"), "x0": ("U", "x0"), "h": ("U", "h"), "lh": None, "prox_uh": ("U", "prox_uh"),
    "argsf": ("U", "argsf"), "argsh": ("U", "argsh"), "argsprox": ("U", "argsprox"),
    "bounds": ("U", "bounds"), "projections": ("L", ("U", "proj")), "nsamples": ("U", "nsamples"),
    "user_params": ("U", "user_params"),
}

EMPTY = frozenset()


class CallInfo(object):
    __slots__ = ("node", "caller", "kind", "targets", "libname", "role", "recv")

    def __init__(self, node, caller):
        self.node = node
        self.caller = caller
        self.kind = "UNKNOWN"   # INTERNAL | CTOR | LIB | BUILTIN | METHOD | USER | UNKNOWN
        self.targets = []       # FunctionInfo list for INTERNAL/CTOR
        self.libname = None     # dotted name for LIB / BUILTIN / METHOD (method name)
        self.role = None        # user role for USER
        self.recv = None        # receiver expression for bound-method calls

    def __repr__(self):
        return "<call %s %s %s>" % (self.kind, self.libname or self.role or [t.fid for t in self.targets],
                                    ekey(self.node)[:40])


def _wrap(atom, limit=3):
    """('L', atom) -- widened: beyond `limit` levels of list nesting the atom is kept as it is, so that `w[:-1] = v; return w` applied to its own result
    (self.v = extended(self.v, x)) reaches a fixpoint."""
    d, a = 0, atom
    while a[0] == "L":
        d += 1
        a = a[1]
    return atom if d >= limit else ("L", atom)


class Binding(object):
    """Result of binding a call's arguments to a callee signature."""

    def __init__(self):
        self.params = {}        # param name -> ast expr | ('default', expr)
        self.star = None        # starred positional arg expr (consumes the remaining positionals / vararg)
        self.star_params = []   # params (possibly) filled from the starred arg
        self.star_to_vararg = False
        self.vararg_exprs = []  # plain positionals that land in *vararg
        self.kwstar = None
        self.errors = []        # strings


def bind_call(call, callee, bound_method):
    """Bind ast.Call arguments to callee (FunctionInfo).  bound_method: receiver fills 'self'."""
    b = Binding()
    pos = list(callee.posparams)
    if bound_method and pos:
        pos = pos[1:]
    i = 0
    for a in call.args:
        if isinstance(a, ast.Starred):
            b.star = a.value
            b.star_params = pos[i:]
            if callee.vararg:
                b.star_to_vararg = True
            i = len(pos)
            continue
        if b.star is not None:
            # positional after a star: cannot be placed statically
            b.errors.append("positional argument after *-argument")
            continue
        if i < len(pos):
            b.params[pos[i]] = a
            i += 1
        elif callee.vararg:
            b.vararg_exprs.append(a)
        else:
            b.errors.append("too many positional arguments (%d given, %d accepted)"
                            % (len([x for x in call.args if not isinstance(x, ast.Starred)]), len(pos)))
            break
    for kw in call.keywords:
        if kw.arg is None:
            b.kwstar = kw.value
            continue
        if kw.arg in pos or kw.arg in callee.kwonly:
            if kw.arg in b.params:
                b.errors.append("multiple values for argument '%s'" % kw.arg)
            b.params[kw.arg] = kw.value
            if kw.arg in b.star_params:
                b.star_params = b.star_params[:b.star_params.index(kw.arg)]
        elif callee.kwarg:
            pass
        else:
            b.errors.append("unexpected keyword argument '%s'" % kw.arg)
    for p in pos + list(callee.kwonly):
        if p in b.params:
            continue
        if p in callee.defaults:
            if b.star is not None and p in b.star_params:
                # may be filled by the star or by the default
                b.params[p] = ("default", callee.defaults[p])
            else:
                b.params[p] = ("default", callee.defaults[p])
        elif b.star is not None and p in b.star_params:
            pass  # filled by the star (length unknown)
        elif b.kwstar is not None:
            pass
        else:
            b.errors.append("missing required argument '%s'" % p)
    return b


class Resolver(object):
    def __init__(self, prog):
        self.prog = prog
        self.lambda_fi = {}      # id(lambda node) -> FunctionInfo
        self.def_fi = {}         # id(FunctionDef node) -> FunctionInfo
        for fi in prog.functions.values():
            if fi.is_lambda:
                self.lambda_fi[id(fi.node)] = fi
            else:
                self.def_fi[id(fi.node)] = fi
        self.var = {}        # (fid, name) -> set of atoms   (params + locals, flow-insensitive)
        self.field = {}      # (cls, attr) -> set of atoms
        self.stored_fields = set()  # (cls, attr) assigned somewhere (even if the value carries no atoms)
        self.ret = {}        # fid -> set of atoms (whole value; tuples are ('T', ...) atoms)
        self.glob = {}       # (module, name) -> set of atoms
        self.calls = {}      # id(call node) -> CallInfo
        self.calls_in = {}   # fid -> list of CallInfo
        self.callers = {}    # fid -> list of (CallInfo)
        self.locals_of = {}  # fid -> set of names assigned in the function (incl. params)
        self.changed = True
        self._collect_locals()
        self._seed()
        self._fixpoint()
        self._build_calls()

    # ------------------------------------------------------------------ scopes
    def _collect_locals(self):
        prog = self.prog
        for fi in prog.functions.values():
            names = set(fi.all_params)
            for n in prog.own_nodes(fi):
                if isinstance(n, ast.Name) and isinstance(n.ctx, (ast.Store, ast.Del)):
                    names.add(n.id)
                elif isinstance(n, ast.FunctionDef):
                    names.add(n.name)
                elif isinstance(n, ast.ExceptHandler) and n.name:
                    names.add(n.name)
                elif isinstance(n, (ast.ListComp, ast.DictComp, ast.SetComp, ast.GeneratorExp)):
                    pass
            self.locals_of[fi.fid] = names

    def scope_of(self, fi, name):
        """Return the FunctionInfo whose local `name` is (lexical scoping), or None for module level."""
        cur = fi
        while cur is not None and not isinstance(cur, _ModuleCtx):
            if name in self.locals_of[cur.fid]:
                return cur
            cur = cur.parent
        return None

    def module_symbol(self, modname, name, _seen=None):
        """Resolve a module-level name -> ('fn', FunctionInfo) | ('cls', ClassInfo) | ('glob', module, name) | ('lib', dotted) | None."""
        _seen = _seen or set()
        if (modname, name) in _seen:
            return None
        _seen.add((modname, name))
        mi = self.prog.modules.get(modname)
        if mi is None:
            return None
        if name in mi.functions:
            return ("fn", mi.functions[name])
        if name in mi.classes:
            return ("cls", mi.classes[name])
        if name in mi.globals:
            return ("glob", modname, name)
        if name in mi.lib_aliases:
            return ("lib", mi.lib_aliases[name])
        if name in mi.from_imports:
            src, orig = mi.from_imports[name]
            return self.module_symbol(src, orig, _seen)
        for src in mi.star_imports:
            smi = self.prog.modules.get(src)
            if smi is None:
                continue
            if smi.all is not None and name not in smi.all:
                continue
            if smi.all is None and name.startswith("_"):
                continue
            r = self.module_symbol(src, name, _seen)
            if r is not None:
                return r
        return None

    # ------------------------------------------------------------------ atoms
    def _add(self, table, key, atoms):
        if not atoms:
            return
        cur = table.setdefault(key, set())
        n = len(cur)
        cur |= atoms
        if len(cur) != n:
            self.changed = True

    def _seed(self):
        solve = self.prog.fn("solver.solve")
        for p in solve.all_params:
            atom = USER_PARAMS.get(p)
            if atom is not None:
                self._add(self.var, (solve.fid, p), {atom})

    def ev(self, fi, node, depth=0):
        """Atoms an expression may denote (in function fi; fi may be None for module level)."""
        if node is None or depth > 6:
            return EMPTY
        if isinstance(node, ast.Name):
            return self._ev_name(fi, node.id)
        if isinstance(node, ast.Constant):
            if node.value is None:
                return frozenset([("N",)])
            return EMPTY
        if isinstance(node, ast.Attribute):
            base = self.ev(fi, node.value, depth + 1)
            out = set()
            for a in base:
                if a[0] == "C":
                    out |= self.field.get((a[1], node.attr), set())
                    ci = self.prog.classes.get(a[1])
                    if ci and node.attr in ci.methods and (a[1], node.attr) not in self.stored_fields:
                        out.add(("BM", ci.methods[node.attr].fid))
                elif a[0] == "K":
                    ci = self.prog.classes.get(a[1])
                    if ci and node.attr in ci.methods:
                        out.add(("F", ci.methods[node.attr].fid))
            return frozenset(out)
        if isinstance(node, ast.Lambda):
            return frozenset([("F", self.lambda_fi[id(node)].fid)])
        if isinstance(node, ast.Tuple):
            if not node.elts:
                return frozenset([("E",)])
            if any(isinstance(e, ast.Starred) for e in node.elts):
                return EMPTY
            return frozenset([("T", tuple(self.ev(fi, e, depth + 1) for e in node.elts))])
        if isinstance(node, ast.List):
            out = set()
            for e in node.elts:
                for a in self.ev(fi, e, depth + 1):
                    out.add(("L", a))
            return frozenset(out)
        if isinstance(node, ast.Subscript):
            base = self.ev(fi, node.value, depth + 1)
            out = set()
            idx = node.slice
            for a in base:
                if a[0] == "L":
                    if isinstance(idx, ast.Slice):
                        out.add(a)
                    else:
                        out.add(a[1])
                elif a[0] == "T":
                    if isinstance(idx, ast.Constant) and isinstance(idx.value, int) and -len(a[1]) <= idx.value < len(a[1]):
                        out |= a[1][idx.value]
                    elif isinstance(idx, ast.Slice):
                        out.add(a)
                    else:
                        for s in a[1]:
                            out |= s
                elif a[0] == "U" and a[1] == "bounds":
                    out.add(("U", "bounds[i]"))
            return frozenset(out)
        if isinstance(node, ast.IfExp):
            return self.ev(fi, node.body, depth + 1) | self.ev(fi, node.orelse, depth + 1)
        if isinstance(node, ast.BoolOp):
            out = set()
            for v in node.values:
                out |= self.ev(fi, v, depth + 1)
            return frozenset(out)
        if isinstance(node, ast.Starred):
            return self.ev(fi, node.value, depth + 1)
        if isinstance(node, ast.Call):
            return self._ev_call(fi, node, depth)
        return EMPTY

    def _ev_name(self, fi, name):
        sc = self.scope_of(fi, name) if fi is not None else None
        if sc is not None:
            out = set(self.var.get((sc.fid, name), ()))
            # nested def visible by name
            for ch in sc.children:
                if not ch.is_lambda and ch.node.name == name:
                    out.add(("F", ch.fid))
            return frozenset(out)
        modname = fi.module if fi is not None else None
        if modname is None:
            return EMPTY
        r = self.module_symbol(modname, name)
        if r is None:
            return EMPTY
        if r[0] == "fn":
            return frozenset([("F", r[1].fid)])
        if r[0] == "cls":
            return frozenset([("K", r[1].name)])
        if r[0] == "glob":
            return frozenset(self.glob.get((r[1], r[2]), ()))
        return EMPTY

    def callee_atoms(self, fi, call):
        f = call.func
        if isinstance(f, ast.Attribute):
            return self.ev(fi, f)
        return self.ev(fi, f)

    def _ev_call(self, fi, node, depth):
        out = set()
        f = node.func
        # list(x) / tuple(x) keep element atoms; x.copy() keeps atoms
        if isinstance(f, ast.Name) and f.id in ("list", "tuple") and self.scope_of(fi, f.id) is None and len(node.args) == 1:
            return self.ev(fi, node.args[0], depth + 1)
        if isinstance(f, ast.Attribute) and f.attr in ("copy",) and not node.args:
            base = self.ev(fi, f.value, depth + 1)
            if base and all(a[0] in ("L", "T", "E", "U") for a in base):
                return base
        for a in self.callee_atoms(fi, node):
            if a[0] == "K":
                out.add(("C", a[1]))
            elif a[0] in ("F", "BM"):
                out |= self.ret.get(a[1], set())
        return frozenset(out)

    # ------------------------------------------------------------------ propagation
    def _fixpoint(self):
        prog = self.prog
        rounds = 0
        while self.changed:
            self.changed = False
            rounds += 1
            if rounds > 40:
                raise AnalysisError("type propagation did not converge")
            # module globals
            for mi in prog.modules.values():
                for name, val in mi.globals.items():
                    self._add(self.glob, (mi.name, name), set(self.ev(_ModuleCtx(mi.name), val)))
            for fi in prog.functions.values():
                self._propagate_function(fi)
        self.rounds = rounds

    def _assign(self, fi, target, atoms, value_node=None):
        if isinstance(target, ast.Name):
            sc = self.scope_of(fi, target.id) or fi
            self._add(self.var, (sc.fid, target.id), set(atoms))
        elif isinstance(target, ast.Attribute):
            for a in self.ev(fi, target.value):
                if a[0] == "C":
                    if (a[1], target.attr) not in self.stored_fields:
                        self.stored_fields.add((a[1], target.attr))
                        self.changed = True
                    self._add(self.field, (a[1], target.attr), set(atoms))
        elif isinstance(target, (ast.Tuple, ast.List)):
            n = len(target.elts)
            for i, t in enumerate(target.elts):
                sub = set()
                for a in atoms:
                    if a[0] == "T" and len(a[1]) == n:
                        sub |= a[1][i]
                    elif a[0] == "L":
                        sub.add(a[1])
                self._assign(fi, t, sub)
        elif isinstance(target, ast.Subscript):
            # container element store: x[i] = v  -> x may contain v
            elem = set(_wrap(a) for a in atoms if a[0] not in ("N",))
            if elem:
                self._assign(fi, target.value, elem)
        elif isinstance(target, ast.Starred):
            self._assign(fi, target.value, atoms)

    def _propagate_function(self, fi):
        prog = self.prog
        for n in prog.own_nodes(fi):
            if isinstance(n, ast.Assign):
                atoms = self.ev(fi, n.value)
                for t in n.targets:
                    self._assign(fi, t, atoms)
            elif isinstance(n, ast.AnnAssign) and n.value is not None:
                self._assign(fi, n.target, self.ev(fi, n.value))
            elif isinstance(n, ast.AugAssign):
                self._assign(fi, n.target, self.ev(fi, n.value) | self.ev(fi, n.target))
            elif isinstance(n, ast.For):
                it = self.ev(fi, n.iter)
                elem = set(a[1] for a in it if a[0] == "L")
                # dict.items() of user_params etc. carry nothing of interest
                self._assign(fi, n.target, elem)
            elif isinstance(n, ast.Return):
                if n.value is not None:
                    self._add(self.ret, fi.fid, set(self.ev(fi, n.value)))
                else:
                    self._add(self.ret, fi.fid, {("N",)})
            elif isinstance(n, ast.Call):
                self._propagate_call(fi, n)
        if fi.is_lambda:
            self._add(self.ret, fi.fid, set(self.ev(fi, fi.node.body)))

    def _propagate_call(self, fi, call):
        f = call.func
        # list mutation: x.append(v) / x.insert(i, v) / x.extend(l)
        if isinstance(f, ast.Attribute) and f.attr in ("append", "insert", "extend") and call.args:
            v = call.args[-1]
            atoms = self.ev(fi, v)
            if f.attr == "extend":
                elem = set(a for a in atoms if a[0] == "L")
            else:
                elem = set(_wrap(a) for a in atoms if a[0] != "N")
            if elem:
                self._assign(fi, f.value, elem)
        for a in self.callee_atoms(fi, call):
            target = None
            bound = False
            if a[0] == "K":
                ci = self.prog.classes.get(a[1])
                target = ci.methods.get("__init__") if ci else None
                bound = True
            elif a[0] == "F":
                target = self.prog.functions.get(a[1])
                bound = False
                if target is not None and target.is_method and isinstance(f, ast.Attribute):
                    # Class.method(...) unbound: treat as plain
                    bound = False
            elif a[0] == "BM":
                target = self.prog.functions.get(a[1])
                bound = True
            elif a[0] == "C":
                ci = self.prog.classes.get(a[1])
                target = ci.methods.get("__call__") if ci else None
                bound = True
            if target is None:
                continue
            b = bind_call(call, target, bound and target.is_method)
            if bound and target.is_method and target.posparams:
                if a[0] == "K" or a[0] == "C":
                    self._add(self.var, (target.fid, target.posparams[0]), {("C", a[1])})
                elif a[0] == "BM" and isinstance(f, ast.Attribute):
                    self._add(self.var, (target.fid, target.posparams[0]),
                              set(x for x in self.ev(fi, f.value) if x[0] == "C"))
            for p, e in b.params.items():
                if isinstance(e, tuple):
                    self._add(self.var, (target.fid, p), set(self.ev(target.parent, e[1]) if target.parent else self.ev(_ModuleCtx(target.module), e[1])))
                else:
                    self._add(self.var, (target.fid, p), set(self.ev(fi, e)))
            if b.star is not None:
                st = self.ev(fi, b.star)
                if b.star_to_vararg:
                    self._add(self.var, (target.fid, target.vararg), set(st))
                for p in b.star_params:
                    # a user tuple star-expanded into fixed parameters: elements unknown
                    pass
            for e in b.vararg_exprs:
                self._add(self.var, (target.fid, target.vararg), set(("L", x) for x in self.ev(fi, e)))

    # ------------------------------------------------------------------ calls
    def _build_calls(self):
        prog = self.prog
        g = nx.DiGraph()
        for fi in prog.functions.values():
            g.add_node(fi.fid)
            self.calls_in[fi.fid] = []
            self.callers.setdefault(fi.fid, [])
        for fi in prog.functions.values():
            for n in prog.own_nodes(fi):
                if isinstance(n, ast.Call):
                    ci = self._classify_call(fi, n)
                    self.calls[id(n)] = ci
                    self.calls_in[fi.fid].append(ci)
                    for t in ci.targets:
                        g.add_edge(fi.fid, t.fid)
                        self.callers.setdefault(t.fid, []).append(ci)
        # a nested function / lambda is (conservatively) reachable from its parent
        self.callgraph = g
        self.lexical = nx.DiGraph()
        for fi in prog.functions.values():
            if fi.parent is not None:
                self.lexical.add_edge(fi.parent.fid, fi.fid)

    def _lib_root(self, fi, node):
        """Dotted library name if `node` is an attribute chain rooted at a library alias."""
        parts = []
        cur = node
        while isinstance(cur, ast.Attribute):
            parts.append(cur.attr)
            cur = cur.value
        if isinstance(cur, ast.Name) and self.scope_of(fi, cur.id) is None:
            r = self.module_symbol(fi.module, cur.id)
            if r is not None and r[0] == "lib":
                return ".".join([r[1]] + parts[::-1])
            if r is not None and r[0] == "glob":
                val = self.prog.modules[r[1]].globals[r[2]]
                if isinstance(val, ast.Call):
                    inner = self._lib_root(_ModuleCtx(r[1]), val.func)
                    if inner:
                        return ".".join([inner + "()"] + parts[::-1])
        return None

    def _classify_call(self, fi, call):
        ci = CallInfo(call, fi)
        f = call.func
        atoms = self.callee_atoms(fi, call)
        targets = []
        roles = set()
        for a in atoms:
            if a[0] == "K":
                cls = self.prog.classes.get(a[1])
                if cls and "__init__" in cls.methods:
                    targets.append(cls.methods["__init__"])
                    ci.kind = "CTOR"
            elif a[0] in ("F", "BM"):
                t = self.prog.functions.get(a[1])
                if t is not None:
                    targets.append(t)
                    if ci.kind != "CTOR":
                        ci.kind = "INTERNAL"
            elif a[0] == "C":
                cls = self.prog.classes.get(a[1])
                if cls and "__call__" in cls.methods:
                    targets.append(cls.methods["__call__"])
                    ci.kind = "INTERNAL"
            elif a[0] == "U":
                roles.add(a[1])
        ci.targets = targets
        if isinstance(f, ast.Attribute):
            ci.recv = f.value
        if roles:
            ci.role = "|".join(sorted(roles))
            if not targets:
                ci.kind = "USER"
            return ci
        if targets:
            return ci
        if isinstance(f, ast.Name):
            if self.scope_of(fi, f.id) is None:
                r = self.module_symbol(fi.module, f.id)
                if r is not None and r[0] == "lib":
                    ci.kind, ci.libname = "LIB", r[1]
                    return ci
                if r is None and f.id in BUILTINS:
                    ci.kind, ci.libname = "BUILTIN", f.id
                    return ci
            return ci  # UNKNOWN
        if isinstance(f, ast.Attribute):
            lib = self._lib_root(fi, f)
            if lib:
                ci.kind, ci.libname = "LIB", lib
                return ci
            base = self.ev(fi, f.value)
            if any(a[0] == "C" for a in base):
                # attribute call on a package object that is not a known method
                return ci  # UNKNOWN
            ci.kind, ci.libname = "METHOD", f.attr
            return ci
        return ci

    def call_targets(self, fi, call):
        """[(target FunctionInfo, receiver_fills_self)] for a call expression."""
        out = []
        f = call.func
        for a in self.callee_atoms(fi, call):
            if a[0] == "K":
                ci = self.prog.classes.get(a[1])
                t = ci.methods.get("__init__") if ci else None
                if t is not None:
                    out.append((t, True))
            elif a[0] == "F":
                t = self.prog.functions.get(a[1])
                if t is not None:
                    out.append((t, False))
            elif a[0] == "BM":
                t = self.prog.functions.get(a[1])
                if t is not None:
                    out.append((t, t.is_method))
            elif a[0] == "C":
                ci = self.prog.classes.get(a[1])
                t = ci.methods.get("__call__") if ci else None
                if t is not None:
                    out.append((t, True))
        return out

    # ------------------------------------------------------------------ helpers
    def reachable_from(self, fid, include_lexical=True):
        g = self.callgraph
        if include_lexical:
            g = nx.compose(g, self.lexical)
        return set(nx.descendants(g, fid)) | {fid}

    def stats(self):
        total = len(self.calls)
        kinds = {}
        for c in self.calls.values():
            kinds[c.kind] = kinds.get(c.kind, 0) + 1
        return {"calls": total, "by_kind": kinds, "rounds": self.rounds}


class _ModuleCtx(object):
    """Pseudo function context for module-level expressions."""
    parent = None

    def __init__(self, module):
        self.module = module
        self.fid = "%s.<module>" % module
        self.children = []

    @property
    def all_params(self):
        return []
