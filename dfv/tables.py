"""Frozen, confirmed-by-reading tables.  One line of reason per row.

These are the only places where the checker knows something that it did not derive from /repo on this run.
"""

# --------------------------------------------------------------------------------------------------
# C07-3  documented invalid-argument classes (userguide.rst "Optional Arguments", solve() docstring-level
# contract).  subject = names that must be mentioned on the two sides of the comparison (after
# normalisation to lt/le), op = the exact operator the documentation implies.
#   ("row id", op, lhs mentions, rhs mentions / literal, extra required co-guards, reason)
INVALID_ARG_ROWS = [
    ("rhobeg<=0",        "le", {"rhobeg"}, 0.0, [], "rhobeg must be strictly positive"),
    ("rhoend<=0",        "le", {"rhoend"}, 0.0, [], "rhoend must be strictly positive"),
    ("rhobeg<=rhoend",   "le", {"rhobeg"}, {"rhoend"}, [], "rhobeg must be > rhoend"),
    ("npt<n+1",          "lt", {"npt"}, {"n"}, [], "linear models need at least n+1 points"),
    ("maxfun<=0",        "le", {"maxfun"}, 0, [], "maxfun must be strictly positive"),
    ("gap<2rhobeg",      "lt", {"xu", "xl"}, {"rhobeg"}, [], "bounds must leave room for the initial trust region"),
    ("h&prox None",      "is", {"prox_uh"}, None, [("isnot", "h")], "a regulariser needs its proximal operator"),
    ("h&lh None",        "is", {"lh"}, None, [("isnot", "h")], "a regulariser needs its Lipschitz constant"),
    ("h&lh<=0",          "le", {"lh"}, 0.0, [("isnot", "h")], "Lipschitz constant must be positive"),
    ("shape x0",         "ne", {"x0"}, {"n"}, [], "x0 must be a vector"),
    ("shape xl",         "ne", {"x0"}, {"xl"}, [], "lower bounds must have the shape of x0"),
    ("shape xu",         "ne", {"x0"}, {"xu"}, [], "upper bounds must have the shape of x0"),
]

# contradictory / inconsistent option pairs (advanced.rst): (row id, [(param key, required truth)], reason)
OPTION_PAIR_ROWS = [
    ("safety: reduce_delta xor full_geom_step",
     [("growing.safety.full_geom_step", True), ("growing.safety.reduce_delta", True)],
     "the two safety-step variants are mutually exclusive"),
    ("growing: full_rank xor perturb",
     [("growing.full_rank.use_full_rank_interp", True), ("growing.perturb_trust_region_step", True)],
     "the two growing strategies are mutually exclusive"),
    ("noise: exactly one estimate",
     [("noise.quit_on_noise_level", True), ("noise.multiplicative_noise_level", "notnone"),
      ("noise.additive_noise_level", "notnone")],
     "additive and multiplicative noise estimates cannot both be given"),
    ("parallel init needs random directions",
     [("init.run_in_parallel", True), ("init.random_initial_directions", False)],
     "parallel initialisation exists only for random directions"),
    ("reset_rho needs reset_delta",
     [("growing.reset_rho", True), ("growing.reset_delta", False)],
     "resetting rho without delta would break delta >= rho"),
]

# C07-7  raises that are part of the documented behaviour: (function fid, exception name, reason)
ALLOWED_RAISES = [
    ("params.ParameterList.__call__", "ValueError", "documented: unknown parameter name / second update raise ValueError"),
]
# raises allowed only when control dependent on the opt-in parameter
OPT_IN_RAISE_PARAM = "interpolation.throw_error_on_nans"

# Names that look unresolved but are deliberate: (module, name, reason)
UNRESOLVED_NAME_EXCEPTIONS = [
    ("params", "unicode", "python-2 compatibility in check_str; no parameter has type 'str', so the branch is dead"),
]

# --------------------------------------------------------------------------------------------------
# C19-1  options documented (advanced.rst / userguide.rst) as using random directions
RANDOM_OPTION_KEYS = [
    ("init.random_initial_directions", "documented: 'Build the initial interpolation set using random directions'"),
    ("restarts.increase_npt", "documented: soft restarts add 'random directions' when npt is increased"),
    ("regression.momentum_extra_steps", "documented: extra points moved 'randomly'"),
    ("growing.perturb_trust_region_step", "documented: adds a random direction onto the trust region step"),
    ("growing.num_new_dirns_each_iter", "documented: new (random) directions added each iteration while growing"),
    ("growing.ndirs_initial", "growing phase exists only when fewer than npt-1 initial directions are requested; "
                              "documented as building the rest from random directions"),
]

# C02 / C10 : minimum instance counts confirmed by reading the pinned tree (fewer => exit 2)
MIN_COUNTS = {
    "objfun_call_sites": 1,
    "sink_call_sites": 3,
    "evaluate_objective_call_sites": 11,
    "solve_main_call_sites": 3,
    "solve_main_breaks": 30,
    "solve_main_continues": 20,
    "exit_constructions": 35,
    "param_keys": 60,
    "h_call_sites": 12,
    "save_point_sites": 10,
    "change_point_sites": 8,
}
