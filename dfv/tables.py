"""Frozen, confirmed-by-reading tables.  One line of reason per row.

These are the only places where the checker knows something that it did not derive from /repo on this run.
"""

# --------------------------------------------------------------------------------------------------
# C07-3  documented invalid-argument classes (userguide.rst "Optional Arguments", solve() docstring-level
# contract).  subject = names that must be mentioned on the two sides of the comparison (after
# normalisation to lt/le), op = the exact operator the documentation implies.
#   ("row id", op, lhs mentions, rhs mentions / literal, extra required co-guards, reason)
INVALID_ARG_ROWS = [
    ("rhobeg<=0",        "le", {"rhobeg"}, 0.0, [], "rhobeg must be strictly positive"),
    ("rhoend<=0",        "le", {"rhoend"}, 0.0, [], "rhoend must be strictly positive"),
    ("rhobeg<=rhoend",   "le", {"rhobeg"}, {"rhoend"}, [], "rhobeg must be > rhoend"),
    ("npt<n+1",          "lt", {"npt"}, {"n"}, [], "linear models need at least n+1 points"),
    ("maxfun<=0",        "le", {"maxfun"}, 0, [], "maxfun must be strictly positive"),
    ("gap<2rhobeg",      "lt", {"xu", "xl"}, {"rhobeg"}, [], "bounds must leave room for the initial trust region"),
    ("h&prox None",      "is", {"prox_uh"}, None, [("isnot", "h")], "a regulariser needs its proximal operator"),
    ("h&lh None",        "is", {"lh"}, None, [("isnot", "h")], "a regulariser needs its Lipschitz constant"),
    ("h&lh<=0",          "le", {"lh"}, 0.0, [("isnot", "h")], "Lipschitz constant must be positive"),
    ("shape x0",         "ne", {"x0"}, {"n"}, [], "x0 must be a vector"),
    ("shape xl",         "ne", {"x0"}, {"xl"}, [], "lower bounds must have the shape of x0"),
    ("shape xu",         "ne", {"x0"}, {"xu"}, [], "upper bounds must have the shape of x0"),
    ("rhobeg>1e10",      "lt", 1.0e10, {"rhobeg"}, [], "the initial radius must not exceed the cap of the trust-region radius (row added with fix 5abb9eb, finding F18f)"),
    ("bounds not a pair", "ne", {"bounds"}, 2, [("isnot", "bounds")], "bounds must be (lower, upper) (row added with fix c18e669, finding F07k)"),
]

# contradictory / inconsistent option pairs (advanced.rst): (row id, [(param key, required truth)], reason)
OPTION_PAIR_ROWS = [
    ("safety: reduce_delta xor full_geom_step",
     [("growing.safety.full_geom_step", True), ("growing.safety.reduce_delta", True)],
     "the two safety-step variants are mutually exclusive"),
    ("growing: full_rank xor perturb",
     [("growing.full_rank.use_full_rank_interp", True), ("growing.perturb_trust_region_step", True)],
     "the two growing strategies are mutually exclusive"),
    ("noise: exactly one estimate",
     [("noise.quit_on_noise_level", True), ("noise.multiplicative_noise_level", "notnone"),
      ("noise.additive_noise_level", "notnone")],
     "additive and multiplicative noise estimates cannot both be given"),
    ("parallel init needs random directions",
     [("init.run_in_parallel", True), ("init.random_initial_directions", False)],
     "parallel initialisation exists only for random directions"),
    ("reset_rho needs reset_delta",
     [("growing.reset_rho", True), ("growing.reset_delta", False)],
     "resetting rho without delta would break delta >= rho"),
]

# single-parameter thresholds validated in solve itself (the parameter table's bounds are inclusive, so a strict bound needs its own guard):
#   (row id, parameter key, op, literal, reason)
PARAM_THRESHOLD_ROWS = [
    ("restarts.rhoend_scale<=0", "restarts.rhoend_scale", "le", 0.0, "a restart factor of 0 makes rhoend 0 (division by rhoend in reduce_rho); fix 20b5f8b"),
    # op "ge": the rejected values are those >= the literal (the guard reads `params(key) >= lit`, normalised to `lit <= params(key)`)
    ("tr_radius.alpha1>=1", "tr_radius.alpha1", "ge", 1.0, "alpha1 = 1 never reduces rho: solve does not return; fix 4adebb0"),
]

# an option that contradicts an argument: (row id, parameter key, truth of the key in the rejected combination, names on the smaller side of the comparison,
#                                          names on the larger side, reason)
OPTION_VS_ARGUMENT_ROWS = [
    ("coordinate directions with npt > (n+1)(n+2)/2", "init.random_initial_directions", False, {"n"}, {"npt"},
     "the coordinate initialiser supports at most (n+1)(n+2)/2 points (its own assertion); fix 4e6279b"),
]

# C07-7  raises that are part of the documented behaviour: (function fid, exception name, reason)
ALLOWED_RAISES = [
    ("params.ParameterList.__call__", "ValueError", "documented: unknown parameter name / second update raise ValueError"),
]
# raises allowed only when control dependent on the opt-in parameter
OPT_IN_RAISE_PARAM = "interpolation.throw_error_on_nans"

# Names that look unresolved but are deliberate: (module, name, reason)
UNRESOLVED_NAME_EXCEPTIONS = [
    ("params", "unicode", "python-2 compatibility in check_str; no parameter has type 'str', so the branch is dead"),
]

# --------------------------------------------------------------------------------------------------
# C19-1  options documented (advanced.rst / userguide.rst) as using random directions
RANDOM_OPTION_KEYS = [
    ("init.random_initial_directions", "documented: 'Build the initial interpolation set using random directions'"),
    ("restarts.increase_npt", "documented: soft restarts add 'random directions' when npt is increased"),
    ("regression.momentum_extra_steps", "documented: extra points moved 'randomly'"),
    ("growing.perturb_trust_region_step", "documented: adds a random direction onto the trust region step"),
    ("growing.num_new_dirns_each_iter", "documented: new (random) directions added each iteration while growing"),
    ("growing.ndirs_initial", "growing phase exists only when fewer than npt-1 initial directions are requested; "
                              "documented as building the rest from random directions"),
]

# C02 / C10 : minimum instance counts confirmed by reading the pinned tree (fewer => exit 2)
MIN_COUNTS = {
    "objfun_call_sites": 1,
    "sink_call_sites": 3,
    "evaluate_objective_call_sites": 11,
    "solve_main_call_sites": 2,      # the first run and at least one call in the hard-restart loop (today 3: the loop has two variants of the call)
    "solve_main_breaks": 30,
    "solve_main_continues": 20,
    "exit_constructions": 35,
    "param_keys": 60,
    "h_call_sites": 3,      # structurally necessary: the objective store, the sub-problem / criticality measure, the ratio test (today 17: most are copies of one expression)
    "save_point_sites": 10,
    "change_point_sites": 8,
}


# --------------------------------------------------------------------------------------------------
# C07-11  locals that are assigned on some paths only, confirmed by reading to be assigned on every *feasible* path to their uses.
#   (function fid, variable, reason[, premise])  -- anything not listed here is reported.  Where the reason is a condition on the *read*, it is given as a
#   premise that every read of the variable must satisfy (dominating guards): ("isnot", name, None) = `name is not None`; ("param", key, True) = params(key) is true.
#   A new read elsewhere (a log line, say) is then reported even though the variable is listed.
MAYBE_UNDEFINED_OK = [
    ("solver.solve_main", "m", "used only when default_growing_method_set_by_user is not None; only the first call of a solve passes that, and there r0_avg_old is None so m = len(r0) was assigned",
     [("isnot", "default_growing_method_set_by_user", None)]),
    ("solver.solve_main", "restart_auto_detect_delta", "assigned and used under the same conjunction params('restarts.use_restarts') and params('restarts.auto_detect'); parameters cannot change during a run",
     [("param", "restarts.use_restarts", True), ("param", "restarts.auto_detect", True)]),
    ("solver.solve_main", "restart_auto_detect_chgJ", "same as restart_auto_detect_delta",
     [("param", "restarts.use_restarts", True), ("param", "restarts.auto_detect", True)]),
    ("trust_region.ctrsbox_sfista", "gnew", "assigned in every iteration of the S-FISTA loop, which runs MAX_LOOP_ITERS >= 1 times: func_tol.max_iters >= 1 by the parameter table (the rule re-checks that lower bound) and the ceil(...) term is positive"),
    ("trust_region.trsbox", "gredsq", "first CG iteration has beta == 0.0 (initialised before the loop), which assigns gredsq"),
    ("trust_region.trsbox", "gredsq0", "first CG iteration has iterc == 0 (initialised before the loop), which assigns gredsq0"),
    ("trust_region.trsbox", "itermax", "assigned together with gredsq when beta == 0.0 (first iteration)"),
    ("trust_region.trsbox", "ggsav", "read only after an iteration with stplen > 0 and iact None; a non-positive stplen implies iact is set, which restarts the loop before the read"),
    ("trust_region.alt_trust_step", "rdprev", "assigned whenever isav is set; read only if isav != -1 (Powell's TRSBOX, label 120)"),
    ("trust_region.alt_trust_step", "rdnext", "read only if isav < iu - 1, i.e. iteration isav + 1 ran and did not raise redmax, which assigns rdnext"),
    ("trust_region.alt_trust_step", "angt", "assigned in `for i in range(iu)` with iu = int(17*angbd + 3.1) >= 3"),
    ("trust_region.alt_trust_step", "xsav", "assigned together with iact; read only under `iact is not None`"),
    ("util.random_orthog_directions_within_bounds", "Q", "assigned when ninactive > 0; read only in loops over range(ninactive)"),
]
