"""Generic forward data-flow over a CFG with *sets of small states* (keeps branch correlation).

transfer(cfg, node, state) -> iterable of (edge_filter, new_state) is supplied by the rule as two callbacks:
   node_fn(node, state)            -> iterable of states after executing the node
   edge_fn(src, dst, edgedata, s)  -> state or None (None = edge infeasible for this state)
Result: IN[node] = frozenset of states that may hold on entry of node.  `witness` keeps one predecessor
(node,state) per (node,state) so that a shortest-ish witness path can be printed.
"""
from collections import deque

from .loader import AnalysisError


class Flow(object):
    def __init__(self, cfg, init_state, node_fn, edge_fn=None, with_exc=False, max_states=4000):
        self.cfg = cfg
        self.IN = {}
        self.witness = {}
        g = cfg.g
        start = (cfg.entry, init_state)
        self.IN.setdefault(cfg.entry, set()).add(init_state)
        self.witness[start] = None
        dq = deque([start])
        count = 0
        while dq:
            n, s = dq.popleft()
            count += 1
            if count > 400000:
                raise AnalysisError("data-flow did not converge in %s" % cfg.fi.fid)
            outs = list(node_fn(n, s))
            for m in g.successors(n):
                e = g[n][m]
                if not with_exc and e["kind"] == "exc":
                    continue
                for o in outs:
                    o2 = edge_fn(n, m, e, o) if edge_fn is not None else o
                    if o2 is None:
                        continue
                    cur = self.IN.setdefault(m, set())
                    if o2 not in cur:
                        cur.add(o2)
                        if len(cur) > max_states:
                            raise AnalysisError("state explosion at %s in %s" % (cfg.describe(m), cfg.fi.fid))
                        self.witness[(m, o2)] = (n, s)
                        dq.append((m, o2))

    def states(self, node):
        return self.IN.get(node, set())

    def path_to(self, node, state):
        """Witness path (list of cfg nodes) from entry to (node, state)."""
        out = []
        cur = (node, state)
        seen = set()
        while cur is not None and cur not in seen:
            seen.add(cur)
            out.append(cur[0])
            cur = self.witness.get(cur)
        return out[::-1]
