"""Setup command: verify that the analyser can start (imports, schema files, repository present)."""
import os
import sys


def selfcheck():
    import networkx  # noqa
    from . import REPO
    from .engine import Engine
    if not os.path.isdir(os.path.join(REPO, "dfols")):
        print("selfcheck: %s/dfols missing" % REPO)
        return 2
    eng = Engine()
    st = eng.res.stats()
    print("selfcheck: %d functions, %d calls (%s), python %s" % (len(eng.prog.functions), st["calls"], st["by_kind"], sys.version.split()[0]))
    unknown = st["by_kind"].get("UNKNOWN", 0)
    if unknown:
        print("selfcheck: warning, %d unresolved calls" % unknown)
    return 0
