"""Finite order domain (T6): objective values are touched only through comparisons, so a selection guard is
decided completely by a table over {None, NaN, v1 < v2}.  The evaluator interprets the *AST of the guard*
(Compare / BoolOp / not / is None / np.isnan / np.isfinite) -- nothing from dfols is executed."""
import ast
import itertools

from .loader import AnalysisError, ekey

NAN = float("nan")
V1, V2 = 1.0, 2.0
FULL = [None, NAN, V1, V2]
NOTNONE = [NAN, V1, V2]


class Raises(Exception):
    pass


def _is_nan(v):
    return isinstance(v, float) and v != v


def evaluate(node, env):
    """env: normalised text -> value.  Returns a Python value; raises Raises if the guard itself would raise."""
    key = ekey(node)
    if key in env:
        return env[key]
    if isinstance(node, ast.Constant):
        return node.value
    if isinstance(node, ast.BoolOp):
        if isinstance(node.op, ast.And):
            res = True
            for v in node.values:
                res = evaluate(v, env)
                if not res:
                    return res
            return res
        res = False
        for v in node.values:
            res = evaluate(v, env)
            if res:
                return res
        return res
    if isinstance(node, ast.UnaryOp) and isinstance(node.op, ast.Not):
        return not evaluate(node.operand, env)
    if isinstance(node, ast.Compare):
        left = evaluate(node.left, env)
        for op, comp in zip(node.ops, node.comparators):
            right = evaluate(comp, env)
            if isinstance(op, ast.Is):
                r = left is right
            elif isinstance(op, ast.IsNot):
                r = left is not right
            else:
                if left is None or right is None:
                    if isinstance(op, ast.Eq):
                        r = left is right
                    elif isinstance(op, ast.NotEq):
                        r = left is not right
                    else:
                        raise Raises("ordering comparison with None")
                elif isinstance(op, ast.Lt):
                    r = left < right
                elif isinstance(op, ast.LtE):
                    r = left <= right
                elif isinstance(op, ast.Gt):
                    r = left > right
                elif isinstance(op, ast.GtE):
                    r = left >= right
                elif isinstance(op, ast.Eq):
                    r = left == right
                elif isinstance(op, ast.NotEq):
                    r = left != right
                else:
                    raise AnalysisError("unsupported comparison in guard: %s" % key)
            if not r:
                return False
            left = right
        return True
    if isinstance(node, ast.Call):
        f = node.func
        name = f.attr if isinstance(f, ast.Attribute) else (f.id if isinstance(f, ast.Name) else None)
        if name in ("isnan", "isfinite", "isinf") and len(node.args) == 1:
            v = evaluate(node.args[0], env)
            if v is None:
                raise Raises("%s(None)" % name)
            if name == "isnan":
                return _is_nan(v)
            if name == "isfinite":
                return not _is_nan(v) and v not in (float("inf"), float("-inf"))
            return v in (float("inf"), float("-inf"))
        if name in ("any", "all", "bool", "float") and len(node.args) == 1:
            return evaluate(node.args[0], env)
    raise AnalysisError("guard sub-expression outside the order domain: %s" % key)


def decision_table(guard, operands, fixed=None):
    """operands: {text: [domain values]} ; fixed: {text: value}.  Returns [(assignment dict, True/False/'raise')]."""
    names = sorted(operands)
    rows = []
    for combo in itertools.product(*[operands[n] for n in names]):
        env = dict(fixed or {})
        env.update(dict(zip(names, combo)))
        try:
            r = bool(evaluate(guard, env))
        except Raises as ex:
            r = "raise"
        rows.append((dict(zip(names, combo)), r))
    return rows


def fmt(v):
    if v is None:
        return "None"
    if _is_nan(v):
        return "NaN"
    return {V1: "lo", V2: "hi"}.get(v, str(v))
