"""Reproduction (documentation only): Model.swap_points moves points, residuals, objectives and evaluation numbers but not sample counts."""
import numpy as np
from dfols.model import Model

m = Model(3, np.zeros(2), np.array([2.0, 2.0]), -1e20 * np.ones(2), 1e20 * np.ones(2), [], 1, do_logging=False)
m.change_point(1, np.array([1.0, 0.0]), np.array([1.5, 1.5]), 2)
m.change_point(2, np.array([0.0, 1.0]), np.array([1.0, 1.0]), 3)
m.add_new_sample(1, rvec_extra=np.array([1.7, 1.7]))      # point with evaluation number 2 now has 2 samples
before = dict(zip(m.eval_num.tolist(), m.nsamples.tolist()))
m.swap_points(1, 2)
after = dict(zip(m.eval_num.tolist(), m.nsamples.tolist()))
print("samples per evaluation number before", before, "after", after)
print("REPRODUCED" if before != after else "not reproduced")
