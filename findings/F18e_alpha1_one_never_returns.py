"""F18e -- tr_radius.alpha1 = 1.0 (accepted by the parameter table) made solve loop for ever.

Controller.reduce_rho: for rho / rhoend > 250 the new rho is max(alpha1 * rho, rhoend) = rho, so rho is never reduced; the main loop repeats the same iteration
without evaluating the objective and solve does not return (maxfun is never reached).  Decided statically by C18-9 (rho strictly decreases whenever it is reduced:
interval reasoning over the cases of reduce_rho and the parameter table).  Repaired in /repo 4adebb0 (values >= 1 are an input error).

run:  PYTHONPATH=<tree> /venv/bin/python findings/F18e_alpha1_one_never_returns.py     exit 0 = returns a result, exit 1 = does not return within 20 s
"""
import signal
import sys
import warnings

import numpy as np

import dfols

warnings.simplefilter("ignore")


def f(x):
    return np.array([10 * (x[1] - x[0] ** 2), 1 - x[0]])


def _alarm(*_a):
    raise TimeoutError()


signal.signal(signal.SIGALRM, _alarm)
signal.alarm(20)
try:
    s = dfols.solve(f, np.array([-1.2, 1.0]), maxfun=100, user_params={"tr_radius.alpha1": 1.0})
except TimeoutError:
    print("FAIL: solve did not return within 20 s (maxfun = 100)")
    sys.exit(1)
print("PASS: flag", s.flag, s.msg, "nf =", s.nf)
