"""Reproduction (documentation only): dykstra.max_iters = 0 was accepted by the parameter table; the projection of x0 then performs no sweep and returns x0
unchanged, so with projections an infeasible x0 is evaluated as is (outside the bounds, which are enforced only through the projection list)."""
import numpy as np, dfols
from dfols.util import pball
xs=[]
def f(x):
    xs.append(x.copy()); return np.array([x[0]-0.3, x[1]-0.4])
lo,up=np.array([0.0,0.0]),np.array([1.0,1.0])
try:
    s=dfols.solve(f,np.array([-0.5,0.5]),bounds=(lo,up),projections=[lambda x: pball(x,np.array([0.5,0.5]),2.0)],maxfun=10,do_logging=False,user_params={"dykstra.max_iters":0})
    viol=[x for x in xs if np.any(x<lo) or np.any(x>up)]
    print("flag",s.flag,s.msg); print("evaluations outside the box:",len(viol),viol[:1]); print("REPRODUCED" if viol else "not reproduced")
except Exception as e:
    print("raised",type(e).__name__,e)
