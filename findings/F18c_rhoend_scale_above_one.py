"""Reproduction (documentation only): restarts.rhoend_scale ('factor to reduce rhoend by with each restart') had no upper bound in the parameter table.  With a
factor > 1 the rescaled rhoend exceeds rhobeg after a restart: every later run starts (and is recorded) with rho = rhobeg < rhoend.  Found by rule C18-8."""
import numpy as np, dfols
def f(x): return np.array([10*(x[1]-x[0]**2), 1-x[0], 1.0])
try:
    s=dfols.solve(f,np.array([-1.2,1.0]),rhobeg=0.5,rhoend=1e-3,maxfun=300,user_params={"restarts.use_restarts":True,"restarts.rhoend_scale":1e5,
                  "logging.save_diagnostic_info":True,"restarts.max_unsuccessful_restarts":3})
    if s.flag==s.EXIT_INPUT_ERROR:
        print("flag",s.flag,s.msg); print("not reproduced (rejected as an input error)")
    else:
        d=s.diagnostic_info
        rhoend_of_run={k:1e-3*(1e5**k) for k in set(d["nruns"])}
        bad=int(sum(r<rhoend_of_run[k] for r,k in zip(d["rho"],d["nruns"])))
        print("flag",s.flag,s.msg,"nruns",s.nruns,"| rows with rho < rescaled rhoend:",bad)
        print("REPRODUCED" if bad else "not reproduced")
except Exception as e:
    print("raised",type(e).__name__,e)
