"""Reproduction (documentation only): with logging.save_diagnostic_info=True the main loop records scipy.linalg.norm(gopt); scipy's norm validates its input and
raises ValueError('array must not contain infs or NaNs') when one overflow-sized residual has made the model gradient non-finite.  The same runs terminate
normally without the option.  Pointed out by an independent sub-agent (C08 seeding round 2); decided by rule C08-3."""
import numpy as np, dfols, warnings
warnings.simplefilter("ignore")
def mk(kbad):
    c=[0]
    def f(x):
        c[0]+=1
        r=np.array([10*(x[1]-x[0]**2), 1-x[0]])
        return r+1e200 if c[0]==kbad else r
    return f
raised=[]
for k in range(2,20):
    dfols.solve(mk(k),np.array([-1.2,1.0]),maxfun=60)        # without diagnostics: must not raise
    try:
        dfols.solve(mk(k),np.array([-1.2,1.0]),maxfun=60,user_params={"logging.save_diagnostic_info":True})
    except ValueError as e:
        raised.append(k)
print("fault positions where only the run with diagnostics raises ValueError:",raised)
print("REPRODUCED" if raised else "not reproduced")
