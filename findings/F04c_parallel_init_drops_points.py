"""Reproduction (documentation only): with init.run_in_parallel the consumer loop returns at the first result that
carries an exit, dropping the points evaluated for the later entries (soln.obj > best evaluated objective).
Also shows that all points of the parallel initialisation get the same evaluation number."""
import numpy as np
import dfols

np.random.seed(1)
x0 = np.array([1.0, 2.0, 3.0])
evals = []

def f(x):
    r = np.array([2.0]) if np.all(x == x0) else np.array([1e-7 * (1.0 + 0.1 * x[0] + 0.2 * x[1])])
    evals.append((x.copy(), float(r @ r)))
    return r

soln = dfols.solve(f, x0, user_params={"init.run_in_parallel": True, "init.random_initial_directions": True}, do_logging=False)
best = min(v for _, v in evals)
print("flag", soln.flag, soln.msg, "nf", soln.nf)
print("soln.obj = %.6g, best evaluated = %.6g" % (soln.obj, best))
print("REPRODUCED" if soln.obj > best else "not reproduced")
