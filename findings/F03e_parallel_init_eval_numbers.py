"""Reproduction (documentation only): with init.run_in_parallel all points of the initial set are labelled with the
last point number (self.nx is read after all evaluations have been made)."""
import numpy as np
import dfols

np.random.seed(0)
calls = []

def f(x):
    calls.append(x.copy())
    return np.array([x[0] + 1.0, x[1] + 2.0, x[2] + 0.5, x[0] * x[1]])

s = dfols.solve(f, np.array([0.1, 0.2, 0.3]), maxfun=4, do_logging=False,
                user_params={"init.run_in_parallel": True, "init.random_initial_directions": True})
k = int(s.xmin_eval_num)
print("nf", s.nf, "xmin_eval_num", k, "soln.x", s.x, "call[k-1]", calls[k - 1])
print("REPRODUCED" if not np.allclose(calls[k - 1], s.x, atol=1e-12, rtol=0) else "consistent")
