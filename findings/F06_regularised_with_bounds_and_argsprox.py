"""Reproduction (documentation only):
 (F06a) any non-empty argsprox raises TypeError (gradient_Fu(..., *argsprox) takes exactly 6 positionals);
 (F06b) with bounds and a regulariser the sub-problem is solved over a wrongly shifted box (relative bounds applied to an absolute point):
        the returned objective is far from the regularised optimum / the run fails."""
import numpy as np
import dfols

A = np.array([[1.0, 0.2], [0.1, 1.0], [0.5, 0.5]])
b = np.array([3.0, 4.0, 3.2])
lam = 0.1
f = lambda x: A @ x - b
h = lambda x, l=lam: l * np.sum(np.abs(x))
prox = lambda x, u, l=lam: np.sign(x) * np.maximum(np.abs(x) - l * u, 0.0)

# F06a
h2 = lambda x, l: l * np.sum(np.abs(x))
prox2 = lambda x, u, l: np.sign(x) * np.maximum(np.abs(x) - l * u, 0.0)
try:
    s = dfols.solve(f, np.array([2.0, 2.0]), h=h2, lh=lam * np.sqrt(2), prox_uh=prox2, argsh=(lam,), argsprox=(lam,), do_logging=False)
    print("F06a: ran, flag", s.flag, "(not reproduced)")
except TypeError as e:
    print("F06a REPRODUCED: TypeError:", e)

# F06b: bounds active at the solution
lo, up = np.array([2.0, 2.0]), np.array([2.5, 5.0])
try:
    s = dfols.solve(f, np.array([2.2, 2.2]), h=h, lh=lam * np.sqrt(2), prox_uh=prox, bounds=(lo, up), do_logging=False)
    # reference by brute force on a grid of the box
    g0, g1 = np.meshgrid(np.linspace(lo[0], up[0], 401), np.linspace(lo[1], up[1], 401))
    F = sum((A[i, 0] * g0 + A[i, 1] * g1 - b[i]) ** 2 for i in range(3)) + lam * (np.abs(g0) + np.abs(g1))
    print("F06b: flag", s.flag, s.msg, "obj %.6f" % s.obj, "grid optimum %.6f" % F.min(), "x", s.x)
    print("F06b REPRODUCED" if s.obj > F.min() * (1 + 1e-3) + 1e-6 else "F06b not reproduced")
except Exception as e:
    print("F06b REPRODUCED: raised", type(e).__name__, e)
