"""Reproduction (documentation only): evaluation points overshoot a bound by 1 ulp (xbase + clip(step) rounds past the bound).
Random bounded problems; prints the seeds with violations (seeds 1, 33, 42 on the unrepaired tree), found 0 after the repair."""
import numpy as np, dfols, warnings, logging
warnings.simplefilter("ignore")
found=0
for seed in range(300):
    rng=np.random.RandomState(seed)
    n=rng.randint(2,5); m=n+rng.randint(0,3)
    A=rng.randn(m,n); b=rng.randn(m)
    lo=rng.randn(n)-0.5; up=lo+0.5+rng.rand(n)
    x0=lo+(up-lo)*rng.rand(n)
    bad=[]
    def f(x):
        if np.any(x<lo) or np.any(x>up): bad.append(x.copy())
        return A@x-b + 0.1*np.sin(x).sum()
    s=dfols.solve(f,x0,bounds=(lo,up),rhobeg=min(0.1, 0.4*np.min(up-lo)),maxfun=80,do_logging=False)
    if bad or np.any(s.x<lo) or np.any(s.x>up):
        v=bad[0] if bad else s.x
        print('seed',seed,'n',n,'violations',len(bad),'max overshoot', max(np.max(lo-v),np.max(v-up)))
        found+=1
        if found>=3: break
print('found',found)
