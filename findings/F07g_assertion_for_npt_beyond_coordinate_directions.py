"""Reproduction (documentation only): AssertionError out of solve for a contradictory / grown option set (C07).
 (a) npt > (n+1)(n+2)/2 together with init.random_initial_directions=False (user-forced coordinate initialisation);
 (b) hard restarts with restarts.increase_npt and restarts.max_npt > (n+1)(n+2)/2: npt grows past what the coordinate initialisation supports, while the default
     of init.random_initial_directions was fixed from the initial npt.
Both end in `assert self.model.num_pts <= (n+1)(n+2)/2` of Controller.initialise_coordinate_directions.  (b) pointed out by the C20 seeding sub-agent as an aside."""
import numpy as np, dfols, warnings
warnings.simplefilter("ignore")
def f(x): return np.array([10*(x[1]-x[0]**2), 1-x[0], 1.0])
out=[]
for tag,kw in (("(a)",dict(npt=8,maxfun=100,user_params={"init.random_initial_directions":False})),
               ("(b)",dict(maxfun=400,user_params={"restarts.use_restarts":True,"restarts.use_soft_restarts":False,"restarts.increase_npt":True,"restarts.max_npt":9,"restarts.max_unsuccessful_restarts":10}))):
    try:
        s=dfols.solve(f,np.array([-1.2,1.0]),**kw); print(tag,"flag",s.flag,s.msg)
    except AssertionError as e:
        print(tag,"AssertionError:",e); out.append(tag)
print("REPRODUCED" if out else "not reproduced")
