"""Reproduction (documentation only): func_tol.max_iters = 0 was accepted by the parameter table; with a regulariser the S-FISTA loop then
runs zero times and ctrsbox_sfista reads `gnew` before assignment (UnboundLocalError) after dividing by zero.  After the repair: input error."""
import numpy as np, dfols
A=np.array([[1.0,0.2],[0.1,1.0],[0.5,0.5]]); b=np.array([3.0,4.0,3.2]); lam=0.1
f=lambda x: A@x-b
h=lambda x: lam*np.sum(np.abs(x))
prox=lambda x,u: np.sign(x)*np.maximum(np.abs(x)-lam*u,0.0)
try:
    s=dfols.solve(f,np.array([2.0,2.0]),h=h,lh=lam*np.sqrt(2),prox_uh=prox,user_params={"func_tol.max_iters":0},do_logging=False)
    print('returned',s.flag,s.msg)
except Exception as e:
    print('RAISED',type(e).__name__,e)
