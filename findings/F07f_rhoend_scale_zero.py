"""Reproduction (documentation only): restarts.rhoend_scale = 0.0 was accepted (the table's bounds are inclusive).  At the first restart rhoend becomes 0 and
`ratio = self.rho / self.rhoend` in Controller.reduce_rho raises ZeroDivisionError out of solve.  Found by rule C18-8 (positivity of the restart factor)."""
import numpy as np, dfols
def f(x): return np.array([10*(x[1]-x[0]**2), 1-x[0], 1.0])
try:
    s=dfols.solve(f,np.array([-1.2,1.0]),rhobeg=0.5,rhoend=1e-3,maxfun=300,user_params={"restarts.use_restarts":True,"restarts.rhoend_scale":0.0,"restarts.max_unsuccessful_restarts":3})
    print("flag",s.flag,s.msg); print("not reproduced")
except ZeroDivisionError as e:
    print("raised ZeroDivisionError:",e); print("REPRODUCED")
