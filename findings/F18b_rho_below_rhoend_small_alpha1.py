"""Reproduction (documentation only): tr_radius.alpha1 is accepted on [0, 1]; in the third case of Controller.reduce_rho (rho/rhoend > 250) the new rho was
alpha1 * rho, which is below rhoend whenever alpha1 < rhoend/rho, i.e. possibly for every alpha1 < 1/250.  The diagnostic table then records rho < rhoend and
'rho has reached rhoend' can be reported at rho < rhoend.  Found by rule C18-8 (interval reasoning over the cases of reduce_rho and the parameter table)."""
import numpy as np, dfols
def f(x): return np.array([10*(x[1]-x[0]**2), 1-x[0]])
s=dfols.solve(f,np.array([-1.2,1.0]),rhobeg=0.5,rhoend=1e-3,user_params={"tr_radius.alpha1":0.001,"logging.save_diagnostic_info":True})
d=s.diagnostic_info
below=int((d["rho"]<1e-3).sum())
print("flag",s.flag,s.msg,"| min rho recorded",d["rho"].min(),"| rows with rho < rhoend:",below)
print("REPRODUCED" if below else "not reproduced")
