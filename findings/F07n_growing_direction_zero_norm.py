"""F07n -- the new direction of the growing phase was normalised without a test: ZeroDivisionError out of solve.

add_new_direction_while_growing / get_new_direction_for_growing make a random direction orthogonal to the directions the set already holds (Gram-Schmidt) and divide
by its norm (scipy.linalg.norm: a Python float).  When those directions span the space -- n = 1, or a regression set npt > n+1 still growing after n directions --
the result is exactly zero.  Shown by an exploratory probe (n = 1, npt = 3, growing.ndirs_initial = 1), decided statically by C07-20.  Repaired in /repo e6549c2.

run:  PYTHONPATH=<tree> /venv/bin/python findings/F07n_growing_direction_zero_norm.py     exit 0 = no exception in 240 runs, exit 1 = raises
"""
import numpy as np, dfols, warnings, sys
warnings.simplefilter("ignore")
bad=0
for seed in range(30):
    rng=np.random.default_rng(seed)
    A=rng.standard_normal((3,1)); b=rng.standard_normal(3)
    f=lambda x: (A.dot(x)-b)*(1+1e-2*rng.standard_normal(3))
    x0=rng.standard_normal(1)
    for kw in (dict(), dict(bounds=(x0-1.0, x0+1.0), scaling_within_bounds=True)):
        for mf in (3,4,6,30):
            try:
                np.random.seed(seed)
                s=dfols.solve(f, x0, npt=3, rhoend=1e-14, maxfun=mf, objfun_has_noise=True, user_params={'restarts.use_soft_restarts': False, 'growing.ndirs_initial': 1}, **kw)
            except ZeroDivisionError as e:
                bad+=1
                if bad==1: print("RAISED ZeroDivisionError", e, "seed",seed,"maxfun",mf, list(kw))
print("hits",bad); sys.exit(1 if bad else 0)
