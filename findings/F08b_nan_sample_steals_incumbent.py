"""Reproduction (documentation only): with sample averaging, a NaN sample at a later point steals the incumbent
(np.argmin over objective values containing NaN returns the NaN entry).  Model driven directly."""
import numpy as np
from dfols.model import Model

m = Model(3, np.zeros(2), np.array([1.0, 1.0]), -1e20 * np.ones(2), 1e20 * np.ones(2), [], 1, do_logging=False)
m.change_point(1, np.array([1.0, 0.0]), np.array([3.0, 3.0]), 2)
m.change_point(2, np.array([0.0, 1.0]), np.array([0.5, 0.5]), 3)
print("kopt before", m.kopt, "objopt", m.objopt())
m.add_new_sample(1, rvec_extra=np.array([np.nan, 1.0]))
print("kopt after NaN sample at point 1:", m.kopt, "objopt", m.objopt())
print("REPRODUCED" if not np.isfinite(m.objopt()) else "not reproduced")
