"""Reproduction (documentation only): with scaling_within_bounds=True the un-scaling shift + x*scale is applied after the clamp, so
evaluation points can overshoot a bound by rounding."""
import numpy as np, dfols, warnings, logging
warnings.simplefilter("ignore")
found=0
for seed in range(300):
    rng=np.random.RandomState(seed)
    n=rng.randint(2,5); m=n+rng.randint(0,3)
    A=rng.randn(m,n); b=rng.randn(m)
    lo=rng.randn(n)-0.5; up=lo+0.5+rng.rand(n)
    x0=lo+(up-lo)*rng.rand(n)
    bad=[]
    def f(x):
        if np.any(x<lo) or np.any(x>up): bad.append(x.copy())
        return A@x-b + 0.1*np.sin(x).sum()
    s=dfols.solve(f,x0,bounds=(lo,up),scaling_within_bounds=True,maxfun=80,do_logging=False)
    if bad or np.any(s.x<lo) or np.any(s.x>up):
        v=bad[0] if bad else s.x
        print('seed',seed,'n',n,'violations',len(bad),'max overshoot', max(np.max(lo-v),np.max(v-up)))
        found+=1
        if found>=3: break
print('found',found)
