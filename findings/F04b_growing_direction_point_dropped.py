"""Demonstration by fault injection (documentation only): when choose_point_to_replace fails inside
Controller.add_new_direction_while_growing, the point that was just evaluated must still be offered to the saved-point slot.
The failure (a LinAlgError in the Lagrange solve) is rare in practice, so it is injected here at the first call made from
add_new_direction_while_growing with a full point set.  On the tree before commit 1ac57bf soln.obj > best evaluated value."""
import numpy as np
import dfols
from dfols import controller as C

evals = []

def f(x):
    r = np.array([x[0] - 1.0, x[1] - 2.0, x[2] + 1.0, x[0] * x[1] - 2.0])
    evals.append(float(r @ r))
    return r

orig = C.Controller.choose_point_to_replace
state = {"armed": False, "fired": False}
orig_add = C.Controller.add_new_direction_while_growing

def add(self, *a, **k):
    state["armed"] = True
    try:
        return orig_add(self, *a, **k)
    finally:
        state["armed"] = False

def choose(self, d, skip_kopt=True):
    if state["armed"] and not state["fired"]:
        state["fired"] = True
        return None, C.ExitInformation(C.EXIT_LINALG_ERROR, "injected")
    return orig(self, d, skip_kopt=skip_kopt)

C.Controller.add_new_direction_while_growing = add
C.Controller.choose_point_to_replace = choose
np.random.seed(4)
s = dfols.solve(f, np.array([5.0, -3.0, 4.0]), maxfun=60, do_logging=False,
                user_params={"growing.ndirs_initial": 1, "growing.num_new_dirns_each_iter": 3, "growing.full_rank.use_full_rank_interp": False,
                             "growing.perturb_trust_region_step": False})
print("injected:", state["fired"], "flag", s.flag, s.msg, "obj %.6g best evaluated %.6g" % (s.obj, min(evals)))
print("REPRODUCED (point dropped)" if s.obj > min(evals) * (1 + 1e-12) else "best evaluated point returned")
