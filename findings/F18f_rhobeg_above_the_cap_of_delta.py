"""F18f (C18-3b): rhobeg above 1e10 -- the cap every growth of delta is held to -- was accepted: every recorded row has delta = rho = rhobeg > 1e10, against
'delta <= 1e10 at every iteration recorded in soln.diagnostic_info'.  Documentation only -- not run by any check.  Exit 0 = property holds, 1 = violated."""
import sys
import numpy as np
import dfols

soln = dfols.solve(lambda x: np.array([x[0] - 1e12, x[1] + 3e11]), np.zeros(2), rhobeg=5e10, rhoend=1e-3, maxfun=50, user_params={"logging.save_diagnostic_info": True})
if soln.flag == soln.EXIT_INPUT_ERROR:
    print("rhobeg = 5e10 is reported as an input error:", soln.msg)
    sys.exit(0)
d = soln.diagnostic_info["delta"].max()
print("largest recorded delta = %g (cap 1e10), flag %d" % (d, soln.flag))
sys.exit(0 if d <= 1e10 else 1)
