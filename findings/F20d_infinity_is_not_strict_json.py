"""F20d (C20-2c, recorded): to_dict(replace_nan=True) promises strict JSON, but replace_nan_with_none maps only NaN to None: a result holding +/-inf (a residual
function whose first component is inf: obj = inf, resid = [inf, ..]) makes json.dumps(.., allow_nan=False) raise.  Not repaired: strict JSON has no infinity, and
mapping it to null would break the other half of the property (from_dict reproduces every field exactly, None -> NaN).  Documentation only -- not run by any check."""
import json, sys
import numpy as np
import dfols

calls = {"n": 0}


def objfun(x):
    calls["n"] += 1
    r = np.array([x[0] - 1.0, x[1] + 2.0])
    r[0] = np.inf          # at every evaluation (an objective that overflows everywhere near x0)
    return r


soln = dfols.solve(objfun, np.zeros(2), maxfun=30)
print("flag %d obj %r resid %r" % (soln.flag, soln.obj, soln.resid))
try:
    json.dumps(soln.to_dict(replace_nan=True), allow_nan=False)
    print("strict JSON ok")
    sys.exit(0)
except ValueError as ex:
    print("not strict JSON:", ex)
    sys.exit(1)
