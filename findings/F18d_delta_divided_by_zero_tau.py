"""Reproduction (documentation only): with a regulariser the trust-region radius is updated as min(gamma_dec*delta, ||d||) / tau with
tau = min(criticality_measure / (||g|| + lh), 1); tau can be exactly 0, delta becomes inf and the next ctrsbox_sfista call raises
OverflowError('cannot convert float infinity to integer') out of solve (delta <= 1e10 is a clause of C18; no exception is a clause of C07).
Found by the C06 seeding sub-agent as an aside; decided by rule C18-3 (every growth of delta -- now including divisions -- is capped at 1e10)."""
import warnings, numpy as np, dfols
warnings.simplefilter("ignore")
def h(x, lam, c): return lam * np.linalg.norm(x - c, 1)
def prox_uh(x, u, c, lam): return c + np.sign(x - c) * np.maximum(np.abs(x - c) - lam * u, 0.0)
rng = np.random.RandomState(5); m, n = 8, 3
A = rng.randn(m, n); b = A.dot(np.array([1.0, -0.5, 2.0])) + 0.1 * rng.randn(m)
c = np.array([0.8, 0.3, 1.0]); lam = 0.7; x0 = np.array([2.0, 1.0, -1.0])
up = {"restarts.use_restarts": True, "restarts.use_soft_restarts": False, "restarts.max_unsuccessful_restarts": 2, "restarts.rhoend_scale": 1e-6}
np.random.seed(0)
try:
    s = dfols.solve(lambda x: A.dot(x) - b, x0, h=h, lh=lam*np.sqrt(n), prox_uh=prox_uh, argsh=(lam, c), argsprox=(c, lam), rhobeg=1.0, rhoend=0.3, maxfun=300, user_params=up, do_logging=False)
    print("flag", s.flag, s.msg); print("not reproduced")
except OverflowError as e:
    print("raised OverflowError:", e); print("REPRODUCED")
