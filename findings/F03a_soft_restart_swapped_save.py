"""Reproduction (documentation only): after a soft restart xmin_eval_num is wrong -- soft_restart saved the incumbent with
the sample count and the evaluation number swapped.  Noisy Rosenbrock with soft restarts; every evaluation is recorded."""
import numpy as np
import dfols

np.random.seed(0)
calls = []

def f(x):
    r = np.array([10.0 * (x[1] - x[0] ** 2), 1.0 - x[0]]) + 1e-2 * np.random.normal(size=2)
    calls.append(x.copy())
    return r

s = dfols.solve(f, np.array([-1.2, 1.0]), objfun_has_noise=True, maxfun=150, do_logging=False)
# with nsamples == 1 evaluation point number == call number
k = int(s.xmin_eval_num)
ok = 1 <= k <= len(calls) and np.allclose(calls[k - 1], s.x, rtol=0, atol=1e-12)
print("nruns", s.nruns, "nf", s.nf, "xmin_eval_num", k, "x", s.x, "call[k-1]", calls[k - 1] if 1 <= k <= len(calls) else None)
print("REPRODUCED (soln.x is not evaluation point xmin_eval_num)" if not ok else "consistent")
