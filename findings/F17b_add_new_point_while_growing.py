"""F17b (C17-9 / C04): Model.add_new_point appended the new record with np.append, i.e. behind the unused rows of a set that is still growing
(npt_so_far < num_pts), but counted it through npt_so_far += 1: npt() then covers a blank row (point 0, residual inf) instead of the new point, and
`kopt = npt() - 1` designates that blank row.  Reached from soft_restart with restarts.increase_npt while the set is growing (growing.ndirs_initial < npt - 1).
Documentation only -- not run by any check.  Exit 0 = property holds, 1 = violated."""
import sys
import numpy as np
from dfols.model import Model

n, m, npt = 3, 2, 5
x0 = np.zeros(n)
mod = Model(npt, x0, np.array([3.0, 3.0]), -1e20 * np.ones(n), 1e20 * np.ones(n), [], 1, n=n, m=m, abs_tol=1e-12, rel_tol=1e-20, do_logging=False)
mod.change_point(1, np.array([1.0, 0.0, 0.0]), np.array([2.0, 2.0]), 2)      # the set is growing: 2 of 5 points held
mod.num_pts, mod.npt_so_far = npt, 2
before = mod.npt()
mod.add_new_point(np.array([0.0, 1.0, 0.0]), np.array([0.5, 0.5]), 3)           # a better point
k_new = [k for k in range(mod.points.shape[0]) if np.allclose(mod.points[k], [0.0, 1.0, 0.0]) and mod.eval_num[k] == 3]
print("points held before %d, after %d; new record stored in row %s; kopt = %d; objopt = %g" % (before, mod.npt(), k_new, mod.kopt, mod.objopt()))
ok = (mod.npt() == before + 1) and k_new and k_new[0] < mod.npt() and mod.kopt == k_new[0] and abs(mod.objopt() - 0.5) < 1e-12
print("property holds" if ok else "VIOLATED: the new record is not among the points held / kopt does not designate it")

# end to end (found by the round-5 C04 seeding sub-agent): a NaN ends the first run while the set is still growing, the soft restart appends points
import dfols
calls = {"n": 0, "best": np.inf}


def objfun(x):
    calls["n"] += 1
    r = np.array([10.0 * (x[1] - x[0] ** 2), 1.0 - x[0], 0.5 * (x[2] - 1.0) ** 2 + 0.1, x[2] * x[0] - 0.3, 0.2 * (x[3] - x[1]), 0.1])
    if calls["n"] == 6:
        return r * np.nan
    calls["best"] = min(calls["best"], float(np.sum(r ** 2)))
    return r


np.random.seed(0)
soln = dfols.solve(objfun, np.array([-1.2, 1.0, 0.5, 0.0]), maxfun=120,
                   user_params={"restarts.use_restarts": True, "restarts.increase_npt": True, "restarts.max_npt": 9, "growing.ndirs_initial": 1, "growing.num_new_dirns_each_iter": 1})
print("solve: soln.obj = %.6f, best value evaluated = %.6f (flag %d, nf %d)" % (soln.obj, calls["best"], soln.flag, soln.nf))
ok2 = soln.obj <= calls["best"] * (1 + 1e-12)
print("C04 holds end to end" if ok2 else "VIOLATED end to end: a better evaluated point was lost")
sys.exit(0 if (ok and ok2) else 1)
