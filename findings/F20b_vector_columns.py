"""Reproduction (documentation only, never run by a check): with logging.save_xk/save_rk the diagnostic table
holds arrays and soln.to_dict() is not JSON-serialisable.   Run: /venv/bin/python findings/F20b_vector_columns.py"""
import json
import numpy as np
import dfols

f = lambda x: np.array([10.0 * (x[1] - x[0] ** 2), 1.0 - x[0]])
soln = dfols.solve(f, np.array([-1.2, 1.0]), user_params={"logging.save_diagnostic_info": True, "logging.save_xk": True,
                                                           "logging.save_rk": True, "logging.save_poisedness": False})
try:
    json.dumps(soln.to_dict())
    print("serialised (finding not reproduced)")
except TypeError as e:
    print("REPRODUCED: json.dumps(soln.to_dict()) raises", e)
