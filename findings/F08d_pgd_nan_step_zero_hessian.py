"""F08d -- convex projections + an objective with a zero fitted Jacobian: ValueError out of solve.

ctrsbox_pgd takes the step length 1/L with L = ||H||_2.  For a constant objective (or equal residuals at all interpolation points) J = 0, H = 2 J'J = 0, 1/L is
inf, inf * 0 is NaN, the step is NaN and scipy.linalg.norm(d) in solve_main raises ValueError("array must not contain infs or NaNs").  Shown by an exploratory
probe over argument combinations, decided statically by C08-5.  Repaired in /repo ec7e3cf (zero step for a zero Hessian).

run:  PYTHONPATH=<tree> /venv/bin/python findings/F08d_pgd_nan_step_zero_hessian.py     exit 0 = no exception in 40 runs, exit 1 = raises
"""
import numpy as np, dfols, warnings, sys, traceback
warnings.simplefilter("ignore")
from dfols.util import pball
hits=0
for seed in range(40):
    rng=np.random.default_rng(seed); b=rng.standard_normal(1)
    f=lambda x: b.copy()
    x0=rng.standard_normal(2)
    try:
        np.random.seed(seed)
        s=dfols.solve(f, x0, projections=[lambda x, c=x0.copy(): pball(x, c, 1.5)], npt=3, rhobeg=1.0, rhoend=1e-3, maxfun=200, objfun_has_noise=True,
                      user_params={'init.random_initial_directions': True, 'growing.ndirs_initial': 1, 'noise.quit_on_noise_level': True, 'restarts.auto_detect': True, 'growing.do_geom_steps': True})
    except ValueError as e:
        hits+=1
        if hits==1:
            traceback.print_exc(limit=-6)
print("hits",hits); sys.exit(1 if hits else 0)
