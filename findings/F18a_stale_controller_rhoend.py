"""Reproduction (documentation only): Controller.rhoend is a stale copy.  solve_main rescales its local rhoend after each soft
restart (restarts.rhoend_scale) but reduce_rho keeps using the value given at construction: with a scale < 1 the guard
`rho > rhoend` stays true while reduce_rho returns new_rho == rho, and solve spins without evaluating (never returns).
Run with a timeout:  timeout 20 /venv/bin/python findings/F18a_stale_controller_rhoend.py ; echo exit=$?   (exit=124 => reproduced)"""
import numpy as np
import dfols

np.random.seed(0)
f = lambda x: np.array([10.0 * (x[1] - x[0] ** 2), 1.0 - x[0]]) + 1e-3 * np.random.normal(size=2)
s = dfols.solve(f, np.array([-1.2, 1.0]), objfun_has_noise=True, maxfun=400, rhoend=1e-8, do_logging=False,
                user_params={"restarts.rhoend_scale": 0.1})
print("returned: flag", s.flag, s.msg, "nf", s.nf, "nruns", s.nruns)
