"""Reproduction (documentation only): a success flag attached to a non-finite objective (clause of C10).
 (a) residual inf at x0: sumsq = inf passes `obj <= max(abs_tol, rel_tol * objbeg)` because objbeg = inf  ->  'Success: Objective is sufficiently small', obj = inf;
 (b) all-NaN objective with soft restarts: every run fails, after max_unsuccessful_restarts the result is 'Success: Reached maximum number of unsuccessful restarts', obj = nan.
Pointed out by the C10 seeding sub-agent as an aside; decided by the choke-point rule C10-6."""
import numpy as np, dfols, warnings
warnings.simplefilter("ignore")
s1=dfols.solve(lambda x: np.array([np.inf,1.0]),np.array([-1.2,1.0]),maxfun=50)
s2=dfols.solve(lambda x: np.array([np.nan,1.0]),np.array([-1.2,1.0]),maxfun=200,objfun_has_noise=True)
print("(a)",s1.flag,s1.msg,s1.obj); print("(b)",s2.flag,s2.msg,s2.obj)
bad=[s for s in (s1,s2) if s.flag==s.EXIT_SUCCESS and not np.isfinite(s.obj)]
print("REPRODUCED" if bad else "not reproduced")
