"""F07j -- slow.history_for_slow = 0 passed check_all_params and made solve raise ZeroDivisionError.

Controller.terminate_from_slow_iterations divides by float(params("slow.history_for_slow")); the parameter table accepted the range [0, inf).
Decided statically by C07-14 (a parameter used as a Python-typed denominator must have a documented range that excludes zero).  Repaired in /repo e756faf
(lower bound 1: the value is reported as a bad parameter, flag -1).

run:  PYTHONPATH=<tree> /venv/bin/python findings/F07j_slow_history_zero.py     exit 0 = returns a result, exit 1 = raises
"""
import sys
import warnings

import numpy as np

import dfols

warnings.simplefilter("ignore")


def f(x):
    return np.array([10 * (x[1] - x[0] ** 2), 1 - x[0]])


try:
    s = dfols.solve(f, np.array([-1.2, 1.0]), user_params={"slow.history_for_slow": 0})
except ZeroDivisionError as e:
    print("FAIL: solve raised ZeroDivisionError:", e)
    sys.exit(1)
print("PASS: flag", s.flag, s.msg)
