"""F07m -- a soft restart during the growing phase raised IndexError out of solve.

Controller.soft_restart sorts the points the model holds now (npt()) but bounded its geometry loop by num_pts, the capacity of the interpolation set; while the set
is still growing (growing.ndirs_initial < npt - 1) the list is shorter than the bound and closest_points[i] runs past its end.  Shown by an exploratory probe over
argument combinations (tiny budget, noise, growing), decided statically by C07-12 (the loop limit must be the number of entries of the list: capacity vs points held).
Repaired in /repo fda78da.

run:  PYTHONPATH=<tree> /venv/bin/python findings/F07m_soft_restart_while_growing_indexerror.py     exit 0 = no IndexError in 200 runs, exit 1 = raises
"""
import numpy as np, dfols, warnings, sys
warnings.simplefilter("ignore")
rng=np.random.default_rng(3)
A=rng.standard_normal((5,3)); b=rng.standard_normal(5)
def f(x): return (A.dot(x)-b) if np.linalg.norm(x) < 3 else np.full(5, np.nan)
hits=0
for seed in range(40):
    np.random.seed(seed)
    for mf in (3,4,5,6,8):
        try:
            s=dfols.solve(f, np.zeros(3), rhobeg=1e6, rhoend=1e-3, maxfun=mf, objfun_has_noise=True,
                          user_params={'init.random_initial_directions': True, 'growing.ndirs_initial': 1, 'growing.safety.full_geom_step': True})
        except IndexError as e:
            hits+=1
            if hits==1: print("RAISED IndexError seed",seed,"maxfun",mf,e)
print("hits",hits)
sys.exit(1 if hits else 0)
