"""Reproduction (documentation only): every hard-restart run labels its first interpolation point 'evaluation 1'
(Model.__init__: eval_num[0] = 1), so jacmin_eval_nums / xmin_eval_num name the wrong evaluation after a hard restart."""
import numpy as np
import dfols

calls = []

def f(x):
    calls.append(x.copy())
    return np.array([10.0 * (x[1] - x[0] ** 2), 1.0 - x[0], 0.3])

s = dfols.solve(f, np.array([-1.2, 1.0]), maxfun=120, rhoend=1e-1, do_logging=False,
                user_params={"restarts.use_restarts": True, "restarts.use_soft_restarts": False, "restarts.rhoend_scale": 0.1})
nums = [int(v) for v in s.jacmin_eval_nums]
print("nruns", s.nruns, "nf", s.nf, "jacmin_eval_nums", nums, "xmin_eval_num", s.xmin_eval_num)
k = int(s.xmin_eval_num)
ok = np.allclose(calls[k - 1], s.x, rtol=0, atol=1e-12)
print("REPRODUCED (label 1 used in a later run)" if (s.nruns > 1 and 1 in nums) or not ok else "consistent")
