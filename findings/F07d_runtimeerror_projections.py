"""Reproduction (documentation only): projections + npt != n+1 raise RuntimeError instead of returning a result.
Run: /venv/bin/python findings/F07d_runtimeerror_projections.py"""
import numpy as np
import dfols
from dfols.util import pball

f = lambda x: np.array([10.0 * (x[1] - x[0] ** 2), 1.0 - x[0]])
proj = lambda x: pball(x, np.array([0.7, 1.5]), 0.4)
try:
    soln = dfols.solve(f, np.array([0.7, 1.5]), projections=[proj], npt=5)
    print("returned flag", soln.flag, "(finding not reproduced)")
except RuntimeError as e:
    print("REPRODUCED: RuntimeError:", e)
