"""Reproduction (documentation only): a NaN returned at the final 'check the last step' evaluation overwrites the
finite best point (saved-point slot holds NaN, `finite <= NaN` is False, so the NaN slot is returned with success)."""
import numpy as np
import dfols

f0 = lambda x: np.array([10.0 * (x[1] - x[0] ** 2), 1.0 - x[0]])
x0 = np.array([-1.2, 1.0])
ref = dfols.solve(f0, x0, rhoend=1e-3, do_logging=False)
print("reference: flag", ref.flag, ref.msg, "nf", ref.nf, "obj", ref.obj)
k_fault = ref.nf
count = [0]

def f(x):
    count[0] += 1
    r = f0(x)
    if count[0] == k_fault:
        r = r * np.nan
    return r

s = dfols.solve(f, x0, rhoend=1e-3, do_logging=False)
print("faulty at eval %d: flag %s msg %s obj %s" % (k_fault, s.flag, s.msg, s.obj))
print("REPRODUCED" if not np.isfinite(s.obj) else "not reproduced")
