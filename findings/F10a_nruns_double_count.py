"""Reproduction (documentation only): budget exhausted while sampling x0 -> nruns = 2 after a single run;
the same exit reports xmin_eval_num = 0 (F03b).   maxfun=2, nsamples == 5."""
import numpy as np
import dfols

f = lambda x: np.array([x[0] - 1.0, x[1] + 2.0])
s = dfols.solve(f, np.array([0.5, 0.5]), maxfun=2, nsamples=lambda delta, rho, it, nruns: 5, do_logging=False)
print("flag", s.flag, s.msg, "nf", s.nf, "nx", s.nx, "nruns", s.nruns, "xmin_eval_num", s.xmin_eval_num)
print("REPRODUCED nruns" if s.nruns != 1 else "nruns ok", "| REPRODUCED eval num" if s.xmin_eval_num != 1 else "| eval num ok")
