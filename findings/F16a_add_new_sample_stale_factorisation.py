"""Reproduction (documentation only): Model.add_new_sample re-selects kopt without invalidating the cached factorisation; the
interpolation matrix is centred at xopt, so Lagrange polynomials computed afterwards are those of the old centre (L_k(y_j) != delta_kj)."""
import numpy as np
from dfols.model import Model

m = Model(3, np.zeros(2), np.array([2.0, 2.0]), -1e20 * np.ones(2), 1e20 * np.ones(2), [], 1, do_logging=False)
m.change_point(1, np.array([1.0, 0.0]), np.array([1.5, 1.5]), 2)
m.change_point(2, np.array([0.0, 1.0]), np.array([1.0, 1.0]), 3)       # kopt = 2
m.lagrange_gradient(0)                                                  # factorise (centred at point 2)
m.add_new_sample(1, rvec_extra=np.array([-1.5, -1.5]))                  # averaged residual of point 1 becomes 0 -> kopt = 1
print("kopt", m.kopt, "factorisation_current", m.factorisation_current)
worst = 0.0
for k in range(3):
    c, g = m.lagrange_gradient(k)                                       # 'based at xopt'
    for j in range(3):
        val = c + g @ (m.xpt(j) - m.xopt())
        worst = max(worst, abs(val - (1.0 if j == k else 0.0)))
print("max |L_k(y_j) - delta_kj| = %.3g" % worst)
print("REPRODUCED" if worst > 1e-8 else "not reproduced")
