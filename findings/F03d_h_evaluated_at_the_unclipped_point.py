"""F03d (C03-5b): with a regulariser and bounds, Model.change_point / add_new_point / add_new_sample evaluated h at the unclipped `xbase + x`, while objfun saw the
clipped point and soln.x is the clipped point: soln.obj != sum(soln.resid^2) + h(soln.x).  Needs a step that is clipped (growing.perturb_trust_region_step).
Documentation only -- not run by any check.  Exit 0 = property holds, 1 = violated."""
import sys
import numpy as np
import dfols

n = 8
lam = 0.1
objfun = lambda x: np.concatenate([x - 2.0, [np.sum(x)]])
h = lambda x: lam * np.sum(np.abs(x))
prox_uh = lambda x, u: np.sign(x) * np.maximum(np.abs(x) - lam * u, 0.0)
bad = 0
for seed in range(12):
    for maxfun in (8, 10, 12):
        np.random.seed(seed)
        soln = dfols.solve(objfun, 0.8 * np.ones(n), h=h, lh=lam * np.sqrt(n), prox_uh=prox_uh, bounds=(-np.ones(n), np.ones(n)), rhobeg=0.3, maxfun=maxfun,
                           user_params={"growing.ndirs_initial": 1, "growing.full_rank.use_full_rank_interp": False, "growing.perturb_trust_region_step": True})
        if soln.x is None:
            continue
        want = float(np.sum(soln.resid ** 2) + h(soln.x))
        if abs(soln.obj - want) > 1e-9 * max(1.0, abs(want)):
            bad += 1
            if bad <= 3:
                print("seed %d maxfun %d: soln.obj = %.8f but sum(resid^2) + h(x) = %.8f" % (seed, maxfun, soln.obj, want))
print("%d of 36 runs with soln.obj != sum(resid^2) + h(x)" % bad)
sys.exit(1 if bad else 0)
