"""Reproduction (documentation only): bounds whose shape differs from x0, together with scaling_within_bounds=True, raised a NumPy broadcasting ValueError out
of solve (the scaling combined xl, xu and x0 before their shapes were validated) instead of the input-error flag.  Mentioned by the C07 round-3 seeding sub-agent
as the motivation of one of its changes; decided by rule C07-2b (arithmetic combining user arrays only after the shape rows)."""
import numpy as np, dfols
def f(x): return np.array([10*(x[1]-x[0]**2), 1-x[0]])
bad=[]
for bnds in ((np.array([-2.0,-2.0,-2.0]), np.array([2.0,2.0])), (np.array([-2.0,-2.0]), np.array([2.0,2.0,2.0]))):
    try:
        s=dfols.solve(f,np.array([-1.2,1.0]),bounds=bnds,scaling_within_bounds=True,maxfun=20); print("flag",s.flag,s.msg)
    except ValueError as e:
        print("raised ValueError:",e); bad.append(1)
print("REPRODUCED" if bad else "not reproduced")
