"""F07l -- func_tol.criticality_measure = 0 (or func_tol.tr_step = 1) made solve raise OverflowError with a regulariser.

Both values lie inside the documented ranges [0, 1].  The tolerance handed to ctrsbox_sfista is then 0, the iteration estimate .../func_tol is inf and ceil(inf)
raises OverflowError; the surrounding try only named ValueError (NaN).  Decided statically by C07-16 (a handler for NaN in a float-to-int conversion of a quotient
must also cover infinity).  Repaired in /repo 6eadbc8.

run:  PYTHONPATH=<tree> /venv/bin/python findings/F07l_func_tol_zero_overflow.py     exit 0 = returns results, exit 1 = raises
"""
import sys
import warnings

import numpy as np

import dfols

warnings.simplefilter("ignore")
lam = 0.1


def f(x):
    return np.array([10 * (x[1] - x[0] ** 2), 1 - x[0]])


def h(x):
    return lam * np.linalg.norm(x, 1)


def prox(x, u):
    return np.sign(x) * np.maximum(np.abs(x) - lam * u, 0)


bad = 0
for up in ({"func_tol.criticality_measure": 0.0}, {"func_tol.tr_step": 1.0}):
    try:
        s = dfols.solve(f, np.array([-1.2, 1.0]), h=h, lh=lam * np.sqrt(2), prox_uh=prox, maxfun=100, user_params=up)
        print("returned flag", s.flag, "for", up)
    except OverflowError as e:
        print("FAIL: solve raised OverflowError for", up, ":", e)
        bad = 1
print("PASS" if not bad else "FAIL")
sys.exit(bad)
