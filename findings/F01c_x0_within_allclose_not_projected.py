"""Reproduction (documentation only): with projections, an x0 that violates a bound by less than np.allclose's tolerance is not
replaced by its projection (`if not np.allclose(xp, x0)`), so objfun is evaluated outside the bounds."""
import numpy as np
import dfols
from dfols.util import pball

xs = []

def f(x):
    xs.append(x.copy())
    return np.array([x[0] - 0.3, x[1] - 0.4])

lo, up = np.array([0.0, 0.0]), np.array([1.0, 1.0])
x0 = np.array([-1e-10, 0.5])
s = dfols.solve(f, x0, bounds=(lo, up), projections=[lambda x: pball(x, np.array([0.5, 0.5]), 2.0)], maxfun=20, do_logging=False)
viol = [x for x in xs if np.any(x < lo) or np.any(x > up)]
print("evaluations outside the box:", len(viol), viol[:2])
print("REPRODUCED" if viol else "not reproduced")
