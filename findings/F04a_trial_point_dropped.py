"""Reproduction (documentation only): the trial point is dropped on the trust-region-increase exit although it is the best point evaluated.
Prints one line per seed where soln.obj > best evaluated objective; prints found 0 on a repaired tree."""
import numpy as np, dfols, warnings
from dfols.util import pball, pbox
warnings.simplefilter("ignore")
found=0
for seed in [181, 229, 238, 353]:
    rng=np.random.RandomState(seed)
    n=rng.randint(2,4); m=rng.randint(n,n+3)
    A=rng.randn(m,n); b=rng.randn(m)
    c=rng.randn(n); r=0.5+rng.rand()
    evals=[]
    def f(x):
        rr=A@x-b + 0.3*np.sin(3*x).sum()
        evals.append((x.copy(), float(rr@rr)))
        return rr
    a=rng.randn(n); a/=np.linalg.norm(a); beta=a@c+0.2*r
    P=[lambda x: pball(x,c,r), lambda x: x - max(a@x-beta,0)*a]
    x0=c.copy()
    try:
        s=dfols.solve(f,x0,projections=P,maxfun=60,do_logging=False)
    except Exception as e:
        continue
    best=min(v for _,v in evals)
    if s.obj>best*(1+1e-12)+1e-15:
        print(seed, s.flag, s.msg, s.obj, best); found+=1
        if found>3: break
print('found',found)
