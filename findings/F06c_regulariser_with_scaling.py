"""Reproduction (documentation only): regulariser + scaling_within_bounds: the proximal operator's output (user coordinates) is
subtracted from a point in scaled coordinates inside gradient_Fu; the run returns a far-from-optimal point flagged as success."""
import numpy as np
import dfols

A = np.array([[1.0, 0.2], [0.1, 1.0], [0.5, 0.5]])
b = np.array([3.0, 4.0, 3.2])
lam = 0.1
f = lambda x: A @ x - b
h = lambda x: lam * np.sum(np.abs(x))
prox = lambda x, u: np.sign(x) * np.maximum(np.abs(x) - lam * u, 0.0)
lo, up = np.array([0.0, 0.0]), np.array([10.0, 20.0])
g0, g1 = np.meshgrid(np.linspace(lo[0], up[0], 1001), np.linspace(lo[1], up[1], 1001))
F = sum((A[i, 0] * g0 + A[i, 1] * g1 - b[i]) ** 2 for i in range(3)) + lam * (np.abs(g0) + np.abs(g1))
for scaling in (False, True):
    s = dfols.solve(f, np.array([5.0, 5.0]), h=h, lh=lam * np.sqrt(2), prox_uh=prox, bounds=(lo, up), scaling_within_bounds=scaling, do_logging=False)
    print("scaling", scaling, "flag", s.flag, "obj %.6f" % s.obj, "grid optimum %.6f" % F.min())
    if scaling:
        print("REPRODUCED" if s.obj > F.min() * (1 + 1e-2) + 1e-4 else "not reproduced")
