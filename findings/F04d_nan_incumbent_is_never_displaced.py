"""F04d (C04-3 / C08-1 row 'NaN holder, finite candidate' of change_point / add_new_point): a NaN objective at the incumbent (e.g. the residual function returns
NaN at the first call only) is never displaced by a later finite point, because `obj < objopt()` is False against NaN: solve returns obj = nan although finite
points were evaluated.  Documentation only -- not run by any check.  Exit 0 = property holds, 1 = violated."""
import sys
import numpy as np
import dfols

bad = 0
for hard in (False, True):
    calls = {"n": 0, "best": np.inf}

    def objfun(x):
        calls["n"] += 1
        r = np.array([x[0] - 1.0, x[1] + 2.0, 0.1])
        if calls["n"] == 1:
            return r * np.nan
        calls["best"] = min(calls["best"], float(np.sum(r ** 2)))
        return r
    up = {"restarts.use_restarts": True, "restarts.use_soft_restarts": False} if hard else {}
    soln = dfols.solve(objfun, np.zeros(2), maxfun=60, user_params=up)
    print("hard restarts %s: flag %d nf %d soln.obj = %r, best finite value evaluated = %g" % (hard, soln.flag, soln.nf, soln.obj, calls["best"]))
    if not (soln.obj <= calls["best"] * (1 + 1e-12)):
        bad += 1
print("VIOLATED" if bad else "property holds")
sys.exit(1 if bad else 0)
