"""F20c -- soln.to_dict() raised TypeError for every result with the input-error flag.

The input-error result is constructed with None in the solution fields; to_dict guarded the array fields but applied float() to obj and int() to xmin_eval_num
unconditionally.  Decided statically by C20-8 (nullable fields from the constructor calls vs conversions in to_dict).  Repaired in /repo d561d59.

run:  PYTHONPATH=<tree> /venv/bin/python findings/F20c_to_dict_input_error_result.py     (prints a traceback on the unrepaired tree)
"""
import numpy as np, dfols, warnings, json, traceback
warnings.simplefilter("ignore")
from dfols.solver import OptimResults
def f(x): return np.array([10*(x[1]-x[0]**2), 1-x[0]])
s=dfols.solve(f, np.array([-1.2,1.0]), rhobeg=-1.0)
print(str(s)[:100].replace("\n"," | "))
try:
    d=s.to_dict(replace_nan=True); print("to_dict ok", {k:(type(v).__name__) for k,v in d.items()})
    js=json.dumps(d); print("json ok")
    s2=OptimResults.from_dict(json.loads(js)); print("from_dict ok")
    print(str(s2)[:80])
except Exception:
    traceback.print_exc(limit=-3)
