"""F07i -- ZeroDivisionError out of solve when all interpolation points coincide after rounding.

interpolation.precondition is on by default: Model.interpolation_matrix scales by approx_delta = sqrt(max distance to xopt).  With |x0| huge relative to rhobeg
(x0 = 1e20, rhobeg = 1e-3) every point x0 + rhobeg*e_i equals x0 in floating point, approx_delta is 0.0 and `1.0 / approx_delta` -- a division of Python floats
(math.sqrt) -- raises.  Decided statically by C07-14.  Repaired in /repo 402064f (fall back to no scaling; the singular system is reported as flag -3).

run:  PYTHONPATH=<tree> /venv/bin/python findings/F07i_zero_division_coincident_points.py     exit 0 = returns a result, exit 1 = raises
"""
import sys
import warnings

import numpy as np

import dfols

warnings.simplefilter("ignore")


def f(x):
    return np.array([x[0] - 1e20, x[1] - 1e20 + 1.0])


try:
    s = dfols.solve(f, np.array([1e20, 1e20]), rhobeg=1e-3, rhoend=1e-8, maxfun=50)
except ZeroDivisionError as e:
    print("FAIL: solve raised ZeroDivisionError:", e)
    sys.exit(1)
print("PASS: flag", s.flag, s.msg)
