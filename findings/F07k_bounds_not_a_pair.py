"""F07k -- a bounds argument that is not a (lower, upper) pair raised AssertionError out of solve.

solve checked len(bounds) == 2 with an assert (no check at all under python -O).  Decided statically by C07-15 (no assert in solve reads one of its arguments).
Repaired in /repo c18e669 (input-error flag, zero evaluations).

run:  PYTHONPATH=<tree> /venv/bin/python findings/F07k_bounds_not_a_pair.py     exit 0 = returns a result, exit 1 = raises
"""
import sys
import warnings

import numpy as np

import dfols

warnings.simplefilter("ignore")


def f(x):
    return np.array([10 * (x[1] - x[0] ** 2), 1 - x[0]])


lo, hi = np.array([-5.0, -5.0]), np.array([5.0, 5.0])
try:
    s = dfols.solve(f, np.array([-1.2, 1.0]), bounds=(lo, hi, hi))
except AssertionError as e:
    print("FAIL: solve raised AssertionError:", e)
    sys.exit(1)
print("PASS: flag", s.flag, s.msg, "nf =", s.nf)
sys.exit(0 if (s.flag == s.EXIT_INPUT_ERROR and s.nf == 0) else 1)
